import Bandit.Ast
/-!
# Python values as seen by `Context._get_literal_value`, and the context accessors

Python exceptions are values: accessors that can raise return `Except Crash α`.
-/
namespace Bandit

inductive Crash where
  | keyError | indexError | typeError | attributeError | osError | other
deriving DecidableEq, Repr, Inhabited

abbrev M := Except Crash

deriving instance DecidableEq for Except

/-- What `_get_literal_value` can return.  `none` is Python's `None` ("not a literal").
Sets and dicts are opaque: no check looks inside them. -/
inductive PyVal where
  | none
  | int (i : Int)
  | rat (num : Int) (den : Nat)
  | flt (repr : Str)
  | cplx (isZero : Bool)
  | str (s : Str)
  | bytes (b : List Nat)
  | list (xs : List PyVal)
  | tuple (xs : List PyVal)
  | set (isEmpty : Bool)
  | dict (isEmpty : Bool)
deriving Inhabited, Repr

namespace PyVal

mutual
  /-- Python `==` between two literal values (structural; numbers compare exactly). -/
  def beq : PyVal → PyVal → Bool
    | .none, .none => true
    | .int a, .int b => a == b
    | .int a, .rat n d => n == a * d
    | .rat n d, .int a => n == a * d
    | .rat n d, .rat n' d' => n * d' == n' * d
    | .flt a, .flt b => a == b && a != "nan".toList   -- inf == inf; nan != nan
    | .cplx z, .cplx z' => z && z'                    -- only zero-ness is known; non-zero ones: unknown ⇒ unequal
    | .cplx z, .int a => z && a == 0
    | .int a, .cplx z => z && a == 0
    | .cplx z, .rat n _ => z && n == 0
    | .rat n _, .cplx z => z && n == 0
    | .str a, .str b => a == b
    | .bytes a, .bytes b => a == b
    | .list a, .list b => beqList a b
    | .tuple a, .tuple b => beqList a b
    | _, _ => false
  def beqList : List PyVal → List PyVal → Bool
    | [], [] => true
    | x :: xs, y :: ys => beq x y && beqList xs ys
    | _, _ => false
end

/-- Python truthiness of a literal value -/
def truthy : PyVal → Bool
  | .none => false
  | .int i => i != 0
  | .rat n _ => n != 0
  | .flt _ => true
  | .cplx z => !z
  | .str s => !s.isEmpty
  | .bytes b => !b.isEmpty
  | .list xs => !xs.isEmpty
  | .tuple xs => !xs.isEmpty
  | .set e => !e
  | .dict e => !e

def isNone : PyVal → Bool | .none => true | _ => false
def isStr : PyVal → Bool | .str _ => true | _ => false
def str? : PyVal → Option Str | .str s => some s | _ => Option.none
/-- hashable (can be put in a `set`)? lists, sets and dicts are not. -/
def hashable : PyVal → Bool
  | .list _ => false | .set _ => false | .dict _ => false
  | .tuple xs => xs.attach.all (fun ⟨x, _⟩ => hashable x)
  | _ => true
/-- `a or b` -/
def por (a b : PyVal) : PyVal := if a.truthy then a else b
end PyVal

namespace Node
def constValue? (n : Node) : Option Atom := if n.isKind "Constant" then n.attr "value" else none
/-- `isinstance(n, ast.Str)` -/
def isStrConst (n : Node) : Bool := match n.constValue? with | some (.str _) => true | _ => false
def strConst? (n : Node) : Option Str := match n.constValue? with | some (.str s) => some s | _ => none
def isBytesConst (n : Node) : Bool := match n.constValue? with | some (.bytes _) => true | _ => false
/-- `isinstance(n, ast.Num)`: int, float or complex constant (bool excluded) -/
def isNumConst (n : Node) : Bool :=
  match n.constValue? with
  | some (.int _) | some (.rat _ _) | some (.flt _) | some (.cplx _) => true
  | _ => false
/-- `isinstance(n, ast.NameConstant)`: True / False / None -/
def isNameConst (n : Node) : Bool :=
  match n.constValue? with | some (.bool _) | some .none => true | _ => false
def nameId? (n : Node) : Option Str := if n.isKind "Name" then n.strAttr "id" else none
def attrName? (n : Node) : Option Str := if n.isKind "Attribute" then n.strAttr "attr" else none
end Node

/-- `Context._get_literal_value`.  A set display with an unhashable element (`{[1]}`) is "not a
literal" (`None`): the `TypeError` of `return_set.add(...)` is caught since /repo fix
"set display with an unhashable element". -/
def literalValue : Node → M PyVal
  | .mk k p a ks =>
    let n := Node.mk k p a ks
    if n.isKind "Constant" then
      match n.attr "value" with
      | some (.int i) => pure (.int i)
      | some (.rat x y) => pure (.rat x y)
      | some (.flt r) => pure (.flt r)
      | some (.cplx z) => pure (.cplx z)
      | some (.str s) => pure (.str s)
      | some (.bytes b) => pure (.bytes b)
      | some (.bool b) => pure (.str (if b then "True".toList else "False".toList))
      | some .none => pure (.str "None".toList)
      | _ => pure .none        -- Ellipsis
    else if n.isKind "List" then do
      let xs ← litList ks
      pure (.list xs)
    else if n.isKind "Tuple" then do
      let xs ← litList ks
      pure (.tuple xs)
    else if n.isKind "Set" then do
      let xs ← litList ks
      if xs.all PyVal.hashable then pure (.set xs.isEmpty) else pure .none   -- `except TypeError: literal_value = None`
    else if n.isKind "Dict" then
      pure (.dict ((ks.find? (·.1 == "values".toList)).map (·.2.2.isEmpty) |>.getD true))
    else if n.isKind "Name" then
      match n.strAttr "id" with
      | some s => pure (.str s)
      | none => pure .none
    else pure .none
where
  /-- literal values of the nodes in the `elts` field -/
  litList : List (Str × Bool × List Node) → M (List PyVal)
    | [] => pure []
    | (f, _, ns) :: rest => if f == "elts".toList then litNodes ns else litList rest
  litNodes : List Node → M (List PyVal)
    | [] => pure []
    | x :: xs => do
      let v ← literalValue x
      let vs ← litNodes xs
      pure (v :: vs)

/-- `arg.attr if hasattr(arg, "attr") else _get_literal_value(arg)` -/
def attrOrLiteral (n : Node) : M PyVal :=
  match n.attrName? with
  | some a => pure (.str a)
  | none => literalValue n

/-- A call node seen through the context accessors. -/
structure CallView where
  node : Node
  func : Node
  args : List Node
  keywords : List Node

def Node.asCall? (n : Node) : Option CallView :=
  if n.isKind "Call" then
    match n.kid? "func" with
    | some f => some ⟨n, f, n.kidList "args", n.kidList "keywords"⟩
    | none => none
  else none

namespace CallView
/-- keyword name: `none` for `**kwargs` -/
def kwName (k : Node) : Option Str := k.strAttr "arg"
def kwValue (k : Node) : Option Node := k.kid? "value"

/-- `context.call_args` -/
def callArgs (c : CallView) : M (List PyVal) := c.args.mapM attrOrLiteral

/-- `context.call_keywords` as an association list in source order (a later duplicate wins on lookup) -/
def callKeywords (c : CallView) : M (List (Option Str × PyVal)) :=
  c.keywords.mapM fun k => do
    match kwValue k with
    | some v => let x ← attrOrLiteral v; pure (kwName k, x)
    | none => pure (kwName k, .none)

def lookupKw (kws : List (Option Str × PyVal)) (name : String) : Option PyVal :=
  (kws.reverse.find? (·.1 == some name.toList)).map (·.2)

/-- `context.get_call_arg_value(name)` (`None` when absent) -/
def argValue (c : CallView) (name : String) : M PyVal := do
  let kws ← c.callKeywords
  pure ((lookupKw kws name).getD .none)

/-- `name in context.call_keywords` -/
def hasKw (c : CallView) (name : String) : M Bool := do
  let kws ← c.callKeywords
  pure (lookupKw kws name).isSome

/-- `context.check_call_arg_value(name, values)`: `none` = not found / value `None` -/
def checkArg (c : CallView) (name : String) (values : List PyVal) : M (Option Bool) := do
  let v ← c.argValue name
  if v.isNone then pure none else pure (some (values.any (fun x => v.beq x)))

/-- `context.get_lineno_for_call_arg(name)`: line of the first keyword with that name -/
def kwLineno (c : CallView) (name : String) : Option Nat :=
  match c.keywords.find? (fun k => kwName k == some name.toList) with
  | some k => (kwValue k).bind Node.line?
  | none => none

/-- `context.get_call_arg_at_position(i)` -/
def argAt (c : CallView) (i : Nat) : M PyVal :=
  match c.args[i]? with
  | some a =>
    match a.attrName? with
    | some s => if s.isEmpty then literalValue a else pure (.str s)
    | none => literalValue a
  | none => pure .none
end CallView

end Bandit
