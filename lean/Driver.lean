import Bandit.Drv.Core
import Bandit.Drv.Metrics
import Bandit.Drv.BaselineTool
import Bandit.Drv.Baseline
import Bandit.Drv.Format
import Bandit.Drv.Discovery
import Bandit.Drv.Manager
import Bandit.Drv.ConfigLoad
import Bandit.Drv.Cli
import Bandit.Drv.Registry
import Bandit.Drv.Inject
import Bandit.Drv.Process
/-!
# Line-protocol driver: one JSON request per line on stdin, one JSON answer per line on stdout.
-/
open Lean Bandit

namespace Drv

/-- all registered ops; each area appends its own list here -/
def allOps : List Op := coreOps ++ MetricsOps.ops ++ Drv.BaselineTool.ops ++ Drv.Baseline.ops ++ Drv.Fmt.ops ++ Discovery.ops ++ Drv.Manager.ops ++ Drv.ConfigLoad.ops ++ CliOps.ops ++ Drv.Registry.ops ++ InjectOps.ops ++ ProcessOps.ops

def handle (line : String) : String :=
  match Json.parse line with
  | .error e => (Json.mkObj [("error", Json.str s!"parse: {e}")]).compress
  | .ok j =>
    let op := (j.getObjValAs? String "op").toOption.getD ""
    let r : Except String Json := match allOps.find? (·.1 == op) with
      | some (_, f) => f j
      | none => .error s!"unknown op {op}"
    match r with
    | .ok v => v.compress
    | .error e => (Json.mkObj [("error", Json.str e)]).compress

partial def loop (h : IO.FS.Stream) (out : IO.FS.Stream) : IO Unit := do
  let line ← h.getLine
  if line.isEmpty then return ()
  out.putStrLn (handle line)
  out.flush
  loop h out

end Drv

def main : IO Unit := do
  Drv.loop (← IO.getStdin) (← IO.getStdout)
