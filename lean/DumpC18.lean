import Bandit.Drv.Registry
import Bandit.Gen.RegTables
/-!
`lake env lean --run DumpC18.lean` prints the generated registry tables `Bandit.Gen.tables` — the
instance the theorems of `Props/C18.lean` were checked against — as one JSON line, in the shape the
`c18_*` driver ops accept.  The harness compares it with the registry of the running implementation.
-/
def main : IO Unit := IO.println (Drv.Registry.tablesJson Bandit.Gen.tables).compress
