import Bandit.Proofs.C01
import Bandit.Proofs.Scan
import Bandit.Proofs.Names
import Bandit.Proofs.Erase
import Bandit.Gen.Blacklists
/-!
# C01 — Blacklisted calls/imports are found under every import spelling

Only property theorems live here (helper lemmas are in `Bandit/Proofs`).
-/
namespace Props.C01
open Bandit

/-- **Any context.** Every node below the module root, at any depth and in any field
(statement, argument, decorator, default value, comprehension, lambda, …), is visited. -/
theorem any_context_visited {root n : Node} (h : Below root n) : ∃ v ∈ visits root, v.node = n :=
  below_visited h []

/-- **Call reported.** (`hid`: rule IDs are non-empty — `gen_tables_wellformed` shows the
generated tables satisfy it.) A call anywhere in the traversal whose name — resolved under the alias table
built by the traversal prefix — is a qualified name of rule `r` (first match in table order) is
reported with `r`'s ID and severity, HIGH confidence, on the line/column where the call starts,
provided no nosec comment sits on the call's lines. -/
theorem call_reported
    (checks : List Check) (inp : FileInput) (t : BlTables) (bc : Check)
    (pre post : List Visit) (v : Visit) (c : CallView) (p : Pos) (r : Rule) (q : Str)
    (hv : visits inp.root = pre ++ v :: post)
    (hbc : blacklistCheck t = some bc) (hmem : bc ∈ checks)
    (hkind : v.node.kind = "Call".toList)
    (hc : v.node.erase.asCall? = some c)      -- `c`: the call as checks see it (positions erased)
    (hpos : v.node.pos = some p)
    (hq : callName (stateAfter {} (pre ++ [v])).aliases c = q)
    (hni : c.func.nameId? ≠ some "__import__".toList)
    (hq1 : q ≠ "importlib.import_module".toList) (hq2 : q ≠ "importlib.__import__".toList)
    (hr : firstCallRule (t.rulesFor "Call".toList) q = some r) (hid : r.id ≠ [])
    (hns : NoNosecOn inp.nosec (linerange v.node v.sib)) :
    (⟨r.id, r.level, .high, p.line, linerange v.node v.sib, p.col⟩ : Finding)
      ∈ findingsOf (scanFile checks inp) := by
  rw [mem_findingsOf]
  apply scanFile_visit_event checks inp pre post v _ hv
  obtain ⟨hrun, hkinds, _⟩ := blacklistCheck_run hbc
  have hd := dispatch_plain (v := v) (k := "Call") hkind (by decide) (by decide) (by decide)
  have hrm := (firstCallRule_mem hr).1
  have hkm : "Call".toList ∈ bc.kinds := by rw [hkinds]; exact rulesFor_mem_kinds hrm
  refine mem_runVisit hd hmem hkm ?_
  generalize stateAfter {} (pre ++ [v]) = s at hq ⊢
  let env : Env := { v := v, st := s, ctx := ⟨v.node.line?, v.node.col?, linerange v.node v.sib⟩ }
  have hfc : env.forCheck bc = { env with v := v.erase, ctx := Ctx.blank } := forCheck_erased (blacklistCheck_usesPos hbc)
  have hkindE : (env.forCheck bc).node.kind = "Call".toList := by
    rw [hfc]; simp [Env.node, Visit.erase, hkind]
  have hcE : (env.forCheck bc).node.asCall? = some c := by
    rw [hfc]; simpa [Env.node, Visit.erase] using hc
  have hqual : (env.forCheck bc).qual = q := by
    have hst : (env.forCheck bc).st = s := by rw [hfc]
    have hcE' : (env.forCheck bc).v.node.asCall? = some c := hcE
    simp only [Env.qual, Env.call?, hcE', hst]
    exact hq
  have hrunv : bc.run (env.forCheck bc) = .ok (some { id := r.id, sev := r.level, conf := .high }) := by
    rw [hrun]
    exact blacklistRun_call (e := env.forCheck bc) hkindE hcE hni (hqual ▸ hq1) (hqual ▸ hq2) (hqual ▸ hr)
  have := runCheck_plain (nm := inp.nosec) hrunv hid hns rfl (l := p.line) (col := p.col)
    (by simp [env, Node.line?, hpos]) (by simp [env, Node.col?, hpos])
  show _ ∈ runCheck inp.nosec env bc
  rw [this]
  simp [env]

/-- **Call silent.** If the resolved name is in no rule's qualified names, the blacklist check
produces nothing at that call (no finding, no withheld finding, no crash). -/
theorem call_silent
    (nm : NosecMap) (t : BlTables) (bc : Check) (env : Env) (c : CallView)
    (hbc : blacklistCheck t = some bc)
    (hkind : (env.forCheck bc).node.kind = "Call".toList) (hc : (env.forCheck bc).node.asCall? = some c)
    (hni : c.func.nameId? ≠ some "__import__".toList)
    (hq1 : (env.forCheck bc).qual ≠ "importlib.import_module".toList)
    (hq2 : (env.forCheck bc).qual ≠ "importlib.__import__".toList)
    (hr : ∀ r ∈ t.rulesFor "Call".toList, (env.forCheck bc).qual ∉ r.qualnames) :
    runCheck nm env bc = [] := by
  obtain ⟨hrun, _, _⟩ := blacklistCheck_run hbc
  have hnone : firstCallRule (t.rulesFor "Call".toList) (env.forCheck bc).qual = none := by
    unfold firstCallRule
    rw [List.find?_eq_none]
    intro r hrm
    have := hr r hrm
    simpa [List.any_eq_true] using this
  simp [runCheck, hrun, blacklistRun_call_silent hkind hc hni hq1 hq2 hnone]

/-- **Spellings.** Whatever the traversal prefix bound, as long as import statements bind
identifiers (CPython's grammar), a callee written as an attribute chain `x.a₁…aₙ` resolves to what
`x` is bound to, followed by the attribute path.  Together with the `binds_*` lemmas below this
covers `import m`, `import m as a`, `from p import m [as a]`, `from m import f [as g]`,
`import top as a`. -/
theorem spelling_resolves {pre : List Visit} {v : Visit} {c : CallView} {x : Str} {as : List Str}
    (hwf : ∀ u ∈ pre ++ [v], ImportWF u.node) (hch : Chain c.func x as) :
    callName (stateAfter {} (pre ++ [v])).aliases c
      = dotted ((stateAfter {} (pre ++ [v])).aliases.resolve x) as :=
  callName_chain (stateAfter_keysNoDot keysNoDot_nil hwf) hch

/-- a name that was never bound resolves to itself (`import m; m.f()`) -/
theorem unbound_resolves_self {al : Aliases} {x : Str} (h : al.get? x = none) : al.resolve x = x := by
  simp [Aliases.resolve, h]

/-- `import m as a` binds `a ↦ m` -/
theorem binds_import_as {s : VState} {n : Node} {m a : Str}
    (hk : n.isKind "Import" = true) (hn : importNames n = [(m, some a)]) (ha : a ≠ []) :
    (s.update n).aliases.resolve a = m := by
  have : asnameSet (some a) = some a := by simp [asnameSet, ha]
  simp [VState.update, hk, hn, this, Aliases.resolve, Aliases.get?]

/-- `from p import m` binds `m ↦ p.m`; `from p import m as a` binds `a ↦ p.m` -/
theorem binds_from_import {s : VState} {n : Node} {p m : Str} {asn : Option Str}
    (hk : n.kind = "ImportFrom".toList) (hm : importModule? n = some p) (hn : importNames n = [(m, asn)]) :
    (s.update n).aliases.resolve ((asnameSet asn).getD m) = p ++ '.' :: m := by
  have h1 : n.isKind "Import" = false := not_isKind_of_kind (k := "ImportFrom") hk (by decide)
  have h2 : n.isKind "ImportFrom" = true := isKind_of_kind hk
  simp [VState.update, h1, h2, hm, hn, Aliases.resolve, Aliases.get?]

/-- **the later binding of a name is the one in force**: whatever was visited before — an earlier import of the same local name included — after
`import m as a` the name `a` denotes `m` (seeded change C14-m17 kept the FIRST binding of a name: `import json as m; import os as m; m.system(c)`) -/
theorem later_import_binding_wins {s : VState} {earlier n : Node} {m a : Str}
    (hk : n.isKind "Import" = true) (hn : importNames n = [(m, some a)]) (ha : a ≠ []) :
    ((s.update earlier).update n).aliases.resolve a = m :=
  binds_import_as (s := s.update earlier) hk hn ha

/-- … likewise for `from p import m [as a]` after any earlier statement -/
theorem later_from_import_binding_wins {s : VState} {earlier n : Node} {p m : Str} {asn : Option Str}
    (hk : n.kind = "ImportFrom".toList) (hm : importModule? n = some p) (hn : importNames n = [(m, asn)]) :
    ((s.update earlier).update n).aliases.resolve ((asnameSet asn).getD m) = p ++ '.' :: m :=
  binds_from_import (s := s.update earlier) hk hm hn

/-- `__import__("m")`: the looked-up name is the literal -/
theorem dunder_import_name (e : Env) (c : CallView) (a : Node) (rest : List Node) (m : Str)
    (hf : c.func.nameId? = some "__import__".toList) (hargs : c.args = a :: rest) (ha : a.strConst? = some m) :
    blacklistCallName e c = .ok (some m) := by
  simp [blacklistCallName, hf, hargs, ha, pure, Except.pure]

/-! ### Imports -/

/-- **Import reported.** An `import`/`from … import` statement one of whose (prefixed) names starts
with a qualified name of rule `r` (first match) is reported with `r`'s ID and severity, HIGH
confidence, on the statement's first line. -/
theorem import_reported
    (checks : List Check) (inp : FileInput) (t : BlTables) (bc : Check)
    (pre post : List Visit) (v : Visit) (p : Pos) (r : Rule) (k : String)
    (hv : visits inp.root = pre ++ v :: post)
    (hbc : blacklistCheck t = some bc) (hmem : bc ∈ checks)
    (hk : k = "Import" ∨ (k = "ImportFrom" ∧ (importModule? v.node).isSome))
    (hkind : v.node.kind = k.toList)
    (hpos : v.node.pos = some p)
    (hr : firstImportRule (t.rulesFor k.toList) (importFullNames v.node) = some r) (hid : r.id ≠ [])
    (hns : NoNosecOn inp.nosec (linerange v.node v.sib)) :
    (⟨r.id, r.level, .high, p.line, linerange v.node v.sib, p.col⟩ : Finding)
      ∈ findingsOf (scanFile checks inp) := by
  rw [mem_findingsOf]
  apply scanFile_visit_event checks inp pre post v _ hv
  obtain ⟨hrun, hkinds, _⟩ := blacklistCheck_run hbc
  have hrm := (firstImportRule_mem hr).1
  have hkm : k.toList ∈ bc.kinds := by rw [hkinds]; exact rulesFor_mem_kinds hrm
  generalize stateAfter {} (pre ++ [v]) = s
  let env : Env := { v := v, st := s, ctx := ⟨v.node.line?, v.node.col?, linerange v.node v.sib⟩ }
  have hd : dispatch v = some (k.toList, env.ctx) := by
    rcases hk with rfl | ⟨rfl, hm⟩
    · exact dispatch_plain hkind (by decide) (by decide) (by decide)
    · have h1 := not_isKind_of_kind (k := "ImportFrom") (k' := "ClassDef") hkind (by decide)
      have h2 := not_isKind_of_kind (k := "ImportFrom") (k' := "Constant") hkind (by decide)
      have h3 := isKind_of_kind hkind
      cases hmm : importModule? v.node with
      | none => simp [hmm] at hm
      | some m => simp [dispatch, h1, h2, h3, hmm, hkind, env]
  refine mem_runVisit hd hmem hkm ?_
  have hfc : env.forCheck bc = { env with v := v.erase, ctx := Ctx.blank } := forCheck_erased (blacklistCheck_usesPos hbc)
  have hrunv : bc.run (env.forCheck bc) = .ok (some { id := r.id, sev := r.level, conf := .high }) := by
    rw [hrun, hfc]
    rcases hk with rfl | ⟨rfl, hm⟩
    · have h1 := not_isKind_of_kind (k := "Import") (k' := "Call") hkind (by decide)
      have h2 := isKind_of_kind hkind
      have h3 := not_isKind_of_kind (k := "Import") (k' := "ImportFrom") hkind (by decide)
      simp only [blacklistRun, Env.node, Visit.erase, Node.erase_isKind, Node.erase_kind, importFullNames_erase,
        h1, h2, h3, Bool.false_eq_true, if_false, Bool.true_or, if_true, hkind]
      rw [hr]
      rfl
    · have h1 := not_isKind_of_kind (k := "ImportFrom") (k' := "Call") hkind (by decide)
      have h2 := isKind_of_kind hkind
      have h3 := not_isKind_of_kind (k := "ImportFrom") (k' := "Import") hkind (by decide)
      simp only [blacklistRun, Env.node, Visit.erase, Node.erase_isKind, Node.erase_kind, importFullNames_erase,
        h1, h2, h3, Bool.false_eq_true, if_false, Bool.false_or, if_true, hkind]
      rw [hr]
      rfl
  have := runCheck_plain (nm := inp.nosec) hrunv hid hns rfl (l := p.line) (col := p.col)
    (by simp [env, Node.line?, hpos]) (by simp [env, Node.col?, hpos])
  show _ ∈ runCheck inp.nosec env bc
  rw [this]
  simp [env]

/-- the *specified* matching relation for imports: `qn` is `nm` or a dotted prefix of it -/
def DottedPrefix (qn nm : Str) : Prop := nm = qn ∨ ∃ rest, nm = qn ++ '.' :: rest

/-- **Import silent (partial).** bandit matches imports by *string* prefix.  Under the guard that no
qualified name is a string prefix of an imported name without being a dotted prefix of it, an import
none of whose names denotes a rule (dotted-prefix sense) produces nothing. -/
theorem import_silent_partial
    (rules : List Rule) (names : List Str)
    (guard : ∀ r ∈ rules, ∀ qn ∈ r.qualnames, ∀ nm ∈ names, Str.startsWith nm qn = true → DottedPrefix qn nm)
    (hspec : ∀ r ∈ rules, ∀ qn ∈ r.qualnames, ∀ nm ∈ names, ¬ DottedPrefix qn nm) :
    firstImportRule rules names = none := by
  unfold firstImportRule
  rw [List.find?_eq_none]
  intro r hr
  simp only [List.any_eq_true, not_exists, not_and]
  intro nm hnm qn hqn hsw
  exact hspec r hr qn hqn nm hnm (guard r hr qn hqn nm hnm hsw)

/-- **Counter-example to the unguarded statement** (a known finding): `import pickletools` is
reported as B403 although `pickletools` is not the module `pickle` nor inside it. -/
theorem NEG_import_string_prefix :
    (firstImportRule Gen.rulesImport ["pickletools".toList]).map (·.id) = some "B403".toList
    ∧ ¬ DottedPrefix "pickle".toList "pickletools".toList := by
  refine ⟨by decide +kernel, ?_⟩
  rintro (h | ⟨rest, h⟩)
  · exact absurd h (by decide)
  · have := congrArg (fun l => l[6]?) h
    simp at this

/-! ### Instances over the generated tables -/

/-- **Source order.** The alias table is filled as the traversal goes: what is reported for the part of a file visited so far does not depend on anything
that comes later in the traversal — in particular not on an import further down that binds the same name again (the seeded change C01-m12 pre-seeded the
table from the whole file; the harness's placement generator appends such later bindings).  The events of the whole traversal are those of the prefix,
followed by those of the rest run in the state the prefix left. -/
theorem later_code_does_not_change_earlier_findings (checks : List Check) (nm : NosecMap) (lines : List Str) (s : VState)
    (earlier later₁ later₂ : List Visit) :
    (scanVisits checks nm lines s (earlier ++ later₁)).take (scanVisits checks nm lines s earlier).length =
    (scanVisits checks nm lines s (earlier ++ later₂)).take (scanVisits checks nm lines s earlier).length := by
  rw [scanVisits_append, scanVisits_append]
  simp

theorem earlier_findings_are_a_prefix (checks : List Check) (nm : NosecMap) (lines : List Str) (s : VState) (earlier later : List Visit) :
    scanVisits checks nm lines s earlier <+: scanVisits checks nm lines s (earlier ++ later) := by
  rw [scanVisits_append]; exact List.prefix_append _ _

/-- **Only the module argument of `__import__` counts.**  Two `__import__(…)` calls with the same first positional argument are judged alike, whatever
else they pass (`globals`, `locals`, `fromlist`, `level`, any keyword): the looked-up name is the first argument's literal (seeded change C01-m15 replaced it
by `module.item` for each `fromlist` entry). -/
theorem dunder_import_ignores_other_arguments (e e' : Env) (c c' : CallView)
    (hf : c.func.nameId? = some "__import__".toList) (hf' : c'.func.nameId? = some "__import__".toList)
    (ha : c'.args.head? = c.args.head?) :
    blacklistCallName e' c' = blacklistCallName e c := by
  unfold blacklistCallName
  simp only [hf, hf', if_true]
  cases h : c.args with
  | nil =>
    rw [h] at ha
    cases h' : c'.args with
    | nil => rfl
    | cons a t => rw [h'] at ha; simp at ha
  | cons a t =>
    rw [h] at ha
    cases h' : c'.args with
    | nil => rw [h'] at ha; simp at ha
    | cons a' t' =>
      rw [h'] at ha
      simp only [List.head?_cons, Option.some.injEq] at ha
      subst ha; rfl

/-- … so the rule reported for `__import__(m, <anything>)` is the rule of `__import__(m)` -/
theorem dunder_import_rule_ignores_other_arguments (t : BlTables) (e e' : Env) (c c' : CallView)
    (hk : e.node.isKind "Call" = true) (hk' : e'.node.isKind "Call" = true) (hkind : e'.node.kind = e.node.kind)
    (hc : e.node.asCall? = some c) (hc' : e'.node.asCall? = some c')
    (hf : c.func.nameId? = some "__import__".toList) (hf' : c'.func.nameId? = some "__import__".toList)
    (ha : c'.args.head? = c.args.head?) :
    blacklistRun t e' = blacklistRun t e := by
  have hn := dunder_import_ignores_other_arguments e e' c c' hf hf' ha
  unfold blacklistRun
  simp only [hk, hk', if_true, hc, hc', hn, hkind]

/-- every generated rule has at least one qualified name and every import rule is also in the Call
table (so `__import__("m")` / `importlib.import_module("m")` are judged by the import rules) -/
theorem gen_tables_wellformed :
    (∀ r ∈ Gen.rulesCall ++ Gen.rulesImport ++ Gen.rulesImportFrom, r.qualnames ≠ [] ∧ r.id ≠ []) ∧
    (∀ r ∈ Gen.rulesImport, r ∈ Gen.rulesCall) ∧ (∀ r ∈ Gen.rulesImport, r ∈ Gen.rulesImportFrom) := by
  decide +kernel

/-- non-vacuity: the hypotheses of `call_reported` about the table are met by the generated table -/
example : (firstCallRule (Gen.blTables.rulesFor "Call".toList) "pickle.loads".toList).map (·.id) = some "B301".toList := by
  decide +kernel

end Props.C01
