import Bandit.Proofs.Nosec
import Bandit.Proofs.NosecGrammar
import Bandit.Gen.Chars
import Bandit.Gen.Registry
import Bandit.Gen.Regexes
/-!
# C02 — nosec suppresses exactly the findings it names, on the lines it marks
-/
namespace Props.C02
open Bandit

/-! ## Specification (observable terms only)

`L` = the finding's reported line together with its line range.  A comment on line `l`
*covers* test `id` when it is a nosec comment that is bare or names `id`. -/

def covers (nm : NosecMap) (id : Str) (l : Nat) : Bool :=
  match nm.get l with
  | some [] => true
  | some s => s.contains id
  | none => false

/-- the property's right-hand side: some line of `L` carries a covering nosec comment -/
def SpecWithheld (nm : NosecMap) (id : Str) (line : Nat) (range : List Nat) : Prop :=
  ∃ l ∈ line :: range, covers nm id l = true

/-- the lines of `L` that carry any nosec comment -/
def nosecLines (nm : NosecMap) (line : Nat) (range : List Nat) : List Nat :=
  ((line :: range).filter (fun l => (nm.get l).isSome)).eraseDups

def isWithheld : Event → Bool
  | .nosec _ => true | .skipped _ => true | _ => false

/-- **Withheld ⇔ spec (partial).**  Guard `G₂`: at most one line of `L` carries a nosec comment
(`hone`), plus the well-formedness fact that a context's own line lies in its line range.
Then the tester withholds the finding exactly when that comment is bare or names the test. -/
theorem withheld_iff_spec_partial
    (nm : NosecMap) (ctx : Ctx) (raw : Raw) (e : Event) (line col : Nat)
    (hloc : resolveLoc raw ctx = some (line, col))
    (hwf : raw.lineno = none → line ∈ ctx.linerange)
    (hone : ∀ l₁ ∈ line :: ctx.linerange, ∀ l₂ ∈ line :: ctx.linerange,
              (nm.get l₁).isSome → (nm.get l₂).isSome → l₁ = l₂)
    (he : emit nm ctx raw = .ok e) :
    isWithheld e = true ↔ SpecWithheld nm raw.id line ctx.linerange := by
  -- the line the tester looks up directly is `line` whenever the check supplied one
  have hbase : ∀ l, raw.lineno = some l → l = line := by
    intro l hl
    unfold resolveLoc at hloc
    rw [hl] at hloc
    cases hc : (raw.col <|> ctx.col) with
    | none => simp [hc] at hloc
    | some c => simp [hc] at hloc; exact hloc.1
  rw [emit_eq, hloc] at he
  simp only [] at he
  constructor
  · -- withheld ⇒ some line of L carries a covering comment (no guard needed)
    intro hw
    have key : ∀ s, nosecsFor nm raw ctx = some s → (s = [] ∨ s.contains raw.id = true) →
        SpecWithheld nm raw.id line ctx.linerange := by
      intro s hs hcov
      unfold nosecsFor at hs
      cases hb : raw.lineno.bind nm.get with
      | none =>
        cases hc : getNosec nm ctx.linerange with
        | none => simp [hb, hc] at hs
        | some c =>
          simp only [hb, hc] at hs
          obtain ⟨l, hl, hg⟩ := getNosec_some hc
          cases hs
          refine ⟨l, by simp [hl], ?_⟩
          unfold covers; rw [hg]
          rcases hcov with rfl | h
          · rfl
          · cases s <;> simp_all
      | some b =>
        have ⟨l0, hl0, hg0⟩ : ∃ l0, raw.lineno = some l0 ∧ nm.get l0 = some b := by
          cases hr : raw.lineno with
          | none => simp [hr] at hb
          | some l0 => exact ⟨l0, rfl, by simpa [hr] using hb⟩
        have hl0' := hbase l0 hl0
        subst hl0'
        cases hc : getNosec nm ctx.linerange with
        | none =>
          simp only [hb, hc] at hs
          cases hs
          refine ⟨l0, by simp, ?_⟩
          unfold covers; rw [hg0]
          rcases hcov with rfl | h
          · rfl
          · cases s <;> simp_all
        | some c =>
          simp only [hb, hc] at hs
          cases hs
          obtain ⟨l, hl, hg⟩ := getNosec_some hc
          rcases hcov with h | h
          · have hb0 : b = [] := (List.append_eq_nil_iff.mp h).1
            refine ⟨l0, by simp, ?_⟩
            unfold covers; rw [hg0, hb0]
          · simp only [List.contains_eq_mem, List.mem_append, decide_eq_true_eq] at h
            rcases h with h | h
            · refine ⟨l0, by simp, ?_⟩
              unfold covers; rw [hg0]
              cases b <;> simp_all
            · refine ⟨l, by simp [hl], ?_⟩
              unfold covers; rw [hg]
              cases c <;> simp_all
    cases hn : nosecsFor nm raw ctx with
    | none => rw [hn] at he; cases he; simp [isWithheld] at hw
    | some s =>
      rw [hn] at he
      cases s with
      | nil => exact key [] hn (Or.inl rfl)
      | cons a as =>
        simp only [] at he
        by_cases hc : (a :: as).contains raw.id = true
        · exact key _ hn (Or.inr hc)
        · rw [if_neg hc] at he; cases he; simp [isWithheld] at hw
  · -- a covering comment on a line of L, being the only nosec comment of L, withholds
    rintro ⟨l, hl, hcov⟩
    have hsome : ∃ t, nm.get l = some t := by
      unfold covers at hcov
      cases hg : nm.get l with
      | none => simp [hg] at hcov
      | some t => exact ⟨t, rfl⟩
    obtain ⟨t, ht⟩ := hsome
    have huniq : ∀ l' ∈ line :: ctx.linerange, (nm.get l').isSome → l' = l :=
      fun l' hl' hs => hone l' hl' l hl hs (by simp [ht])
    have hcovt : t = [] ∨ t.contains raw.id = true := by
      unfold covers at hcov; rw [ht] at hcov
      cases t with
      | nil => exact Or.inl rfl
      | cons a as => exact Or.inr hcov
    -- what the two lookups return
    have hcx : l ∈ ctx.linerange → getNosec nm ctx.linerange = some t := fun h =>
      getNosec_unique (fun l' hl' hs => huniq l' (by simp [hl']) hs) h ht
    have hcx' : ∀ c, getNosec nm ctx.linerange = some c → c = t := by
      intro c hc
      obtain ⟨l', hl', hg⟩ := getNosec_some hc
      have := huniq l' (by simp [hl']) (by simp [hg])
      subst this; rw [ht] at hg; exact (Option.some.inj hg).symm
    have hbs : ∀ b, raw.lineno.bind nm.get = some b → b = t := by
      intro b hb
      cases hr : raw.lineno with
      | none => simp [hr] at hb
      | some l0 =>
        have e0 := hbase l0 hr
        subst e0
        have hg : nm.get l0 = some b := by simpa [hr] using hb
        have := huniq l0 (by simp) (by simp [hg])
        subst this; rw [ht] at hg; exact (Option.some.inj hg).symm
    have hsk : ∃ s, nosecsFor nm raw ctx = some s ∧ (s = t ∨ s = t ++ t) := by
      unfold nosecsFor
      cases hb : raw.lineno.bind nm.get with
      | some b =>
        have := hbs b hb; subst this
        cases hc : getNosec nm ctx.linerange with
        | none => exact ⟨b, rfl, Or.inl rfl⟩
        | some c => have := hcx' c hc; subst this; exact ⟨c ++ c, rfl, Or.inr rfl⟩
      | none =>
        have hlr : l ∈ ctx.linerange := by
          simp only [List.mem_cons] at hl
          rcases hl with rfl | h
          · cases hr : raw.lineno with
            | none => exact hwf hr
            | some l0 =>
              have e0 := hbase l0 hr
              subst e0
              simp [hr, ht] at hb
          · exact h
        rw [hcx hlr]
        exact ⟨t, rfl, Or.inl rfl⟩
    obtain ⟨s, hs, hst⟩ := hsk
    rw [hs] at he
    rcases hcovt with rfl | hc
    · have : s = [] := by rcases hst with rfl | rfl <;> rfl
      subst this; cases he; rfl
    · have hcs : s.contains raw.id = true := by
        rcases hst with rfl | rfl
        · exact hc
        · simp only [List.contains_eq_mem, List.mem_append, decide_eq_true_eq, or_self] at hc ⊢
          exact hc
      cases s with
      | nil => simp at hcs
      | cons a as =>
        simp only [] at he
        rw [if_pos hcs] at he
        cases he; rfl

/-- **Never withheld without a covering comment (full strength).**  A finding is withheld only if
some line of `L` carries a nosec comment that is bare or names its test: comments naming only
other tests, and comments outside the span, never withhold it. -/
theorem withheld_only_if_covered
    (nm : NosecMap) (ctx : Ctx) (raw : Raw) (e : Event) (line col : Nat)
    (hloc : resolveLoc raw ctx = some (line, col))
    (he : emit nm ctx raw = .ok e) (hw : isWithheld e = true)
    (hone : ∀ l₁ ∈ line :: ctx.linerange, ∀ l₂ ∈ line :: ctx.linerange,
              (nm.get l₁).isSome → (nm.get l₂).isSome → l₁ = l₂)
    (hwf : raw.lineno = none → line ∈ ctx.linerange) :
    SpecWithheld nm raw.id line ctx.linerange :=
  (withheld_iff_spec_partial nm ctx raw e line col hloc hwf hone he).mp hw

/-- **Counter-example to the unguarded statement** (known finding): a bare `# nosec` on one line
of a two-line call and `# nosec B101` on the keyword's line — the B602 finding located on the
keyword line is *reported*, although a bare nosec comment sits on a line of the statement. -/
def negNm : NosecMap := [(1, some []), (2, some ["B101".toList])]
def negCtx : Ctx := ⟨some 1, some 0, [1, 2]⟩
def negRaw : Raw := { id := "B602".toList, sev := .high, conf := .high, lineno := some 2 }

theorem NEG_two_comments :
    emit negNm negCtx negRaw = .ok (.finding ⟨"B602".toList, .high, .high, 2, [1, 2], 0⟩)
    ∧ SpecWithheld negNm negRaw.id 2 negCtx.linerange := by
  refine ⟨by decide, 1, by decide, by decide⟩

/-- **`--ignore-nosec` restores every withheld finding unchanged.**  Scanning with nosec handling
off yields, event for event, what the normal scan reported or withheld. -/
theorem ignore_nosec_restores (checks : List Check) (inp : FileInput) :
    scanFile checks { inp with nosec := [] } = (scanFile checks inp).map Event.asFinding := by
  simp only [scanFile, List.map_append]
  rw [scanVisits_ignore checks inp.nosec, flatMap_runCheck_ignore inp.nosec]

/-- corollary: the findings of the `--ignore-nosec` run are the reported and the withheld findings -/
theorem ignore_nosec_findings (checks : List Check) (inp : FileInput) :
    (findingsOf (scanFile checks { inp with nosec := [] })).length
      = (findingsOf (scanFile checks inp)).length + (withheldOf (scanFile checks inp)).length := by
  rw [ignore_nosec_restores]
  induction scanFile checks inp with
  | nil => rfl
  | cons e es ih =>
    cases e <;> simp_all [findingsOf, withheldOf, Event.asFinding, List.filterMap_cons] <;> omega

/-- **Counters.** `nosec` + `skipped_tests` = number of findings withheld -/
theorem counters_exact (es : List Event) :
    nosecCount es + skippedCount es = (withheldOf es).length := by
  induction es with
  | nil => rfl
  | cons e es ih =>
    cases e <;> simp_all [nosecCount, skippedCount, withheldOf, List.filter_cons, List.filterMap_cons] <;> omega

/-! ## The comment mini-language -/

/-- a comment is a nosec comment iff it contains `#`, optional whitespace, `nosec` -/
theorem afterMarker_isSome_iff (cc : CharClasses) (s : Str) :
    (Nosec.afterMarker cc s).isSome ↔
      ∃ pre rest, s = pre ++ '#' :: rest ∧ Nosec.nosecWord.isPrefixOf (rest.dropWhile cc.isSpace) = true := by
  induction s with
  | nil => simp [Nosec.afterMarker]
  | cons c cs ih =>
    unfold Nosec.afterMarker
    by_cases hc : c = '#'
    · subst hc
      simp only [if_true]
      by_cases hp : Nosec.nosecWord.isPrefixOf (cs.dropWhile cc.isSpace) = true
      · simp only [hp, if_true, Option.isSome_some, true_iff]
        exact ⟨[], cs, rfl, hp⟩
      · simp only [hp, Bool.false_eq_true, if_false]
        rw [ih]
        constructor
        · rintro ⟨pre, rest, rfl, h⟩; exact ⟨'#' :: pre, rest, rfl, h⟩
        · rintro ⟨pre, rest, h, hr⟩
          cases pre with
          | nil => simp at h; subst h; exact absurd hr hp
          | cons a pre => simp at h; exact ⟨pre, rest, h.2, hr⟩
    · simp only [hc, if_false]
      rw [ih]
      constructor
      · rintro ⟨pre, rest, rfl, h⟩; exact ⟨c :: pre, rest, rfl, h⟩
      · rintro ⟨pre, rest, h, hr⟩
        cases pre with
        | nil => simp at h; exact absurd h.1 hc
        | cons a pre => simp at h; exact ⟨pre, rest, h.2, hr⟩

/-- the documented examples parse as documented (kernel-evaluated against the *generated*
registry and character classes) -/
theorem documented_examples :
    Nosec.parse Gen.charClasses Gen.registry "# nosec".toList = some [] ∧
    Nosec.parse Gen.charClasses Gen.registry "# nosec: B101, B602".toList = some ["B101".toList, "B602".toList] ∧
    Nosec.parse Gen.charClasses Gen.registry "#nosec B101 B602 because reasons".toList = some ["B101".toList, "B602".toList] ∧
    Nosec.parse Gen.charClasses Gen.registry "# nosec assert_used".toList = some ["B101".toList] ∧
    Nosec.parse Gen.charClasses Gen.registry "# noqa # nosec B101 # other".toList = some ["B101".toList] ∧
    Nosec.parse Gen.charClasses Gen.registry "# just a comment".toList = none := by
  decide +kernel

/-- a comma without a following space separates tests like any other documented separator
(this was a defect of the pinned commit, repaired by /repo commit "fix: nosec comment listing
tests separated by a comma…"; the old regex kept only the last test of such a group) -/
theorem comma_without_space :
    Nosec.parse Gen.charClasses Gen.registry "# nosec B101,B602".toList = some ["B101".toList, "B602".toList] := by
  decide +kernel

/-- the hand model of the two regexes is a model of *these* sources: if /repo changes either
regex, this obligation breaks and the run searches for a failing comment -/
theorem regex_sources_known :
    Gen.nosecCommentPattern = "#\\s*nosec:?\\s*(?P<tests>[^#]+)?#?".toList ∧
    Gen.nosecTestsPattern = "(?:(B\\d+|[a-z\\d_]+),?)".toList ∧ Gen.nosecTestsIgnoreCase = true := by
  decide +kernel

/-! ## The comment grammar, for all comment texts

Declarative side: `Bandit/Spec/NosecGrammar.lean` (relations between texts, read off the two regex
sources above); helper lemmas: `Bandit/Proofs/NosecGrammar.lean`.  The only side condition is that `\s`
does not match the letter `n` (true of the generated classes, `gen_parse_is_grammar`): the model takes all
the whitespace after `#` and does not give any back. -/

/-- **One token.**  `(B\d+|[a-z\d_]+)` at the head of `s`: the model's `oneRep` returns `(t, rest)` iff
`s = t ++ rest` and `t` is `B`/`b` followed by all the decimal digits there are, or — when `s` does not start
with `B<digit>` — all the token characters there are. -/
theorem one_token_is_grammar (cc : CharClasses) (s t rest : Str) :
    Nosec.oneRep cc s = some (t, rest) ↔ Spec.FirstTok cc s t rest :=
  (Nosec.firstTok_iff cc).symm

/-- **Tokenisation.**  For every text `s` and token list `ts`: `captures` (with the fuel `parse` gives it)
returns `ts` iff the grammar assigns `ts` to `s` — characters at which no token can start separate tokens
(blank, comma, any punctuation), after a token one comma is swallowed, tokens are longest matches with `B\d+`
tried first.  In particular every text has exactly one token list. -/
theorem captures_is_tokenisation (cc : CharClasses) (s : Str) (ts : List Str) :
    Nosec.captures cc (s.length + 1) s = ts ↔ Spec.Tokens cc s ts :=
  (Nosec.tokens_iff_captures cc (s.length + 1) s ts (Nat.lt_succ_self _)).symm

/-- more fuel changes nothing -/
theorem captures_fuel_irrelevant (cc : CharClasses) (s : Str) (fuel : Nat) (h : s.length < fuel) :
    Nosec.captures cc fuel s = Nosec.captures cc (s.length + 1) s :=
  (Nosec.tokens_iff_captures cc fuel s _ h).mp
    ((Nosec.tokens_iff_captures cc (s.length + 1) s _ (Nat.lt_succ_self _)).mpr rfl)

/-- the leftmost `#\s*nosec` -/
theorem afterMarker_is_first_marker (cc : CharClasses) (hn : cc.isSpace 'n' = false) (s rest : Str) :
    Nosec.afterMarker cc s = some rest ↔ Spec.FirstMarker cc s rest :=
  Nosec.afterMarker_iff cc hn s rest

/-- the `tests` group: optional colon, all whitespace, then everything up to the next `#` -/
theorem testsGroup_is_group (cc : CharClasses) (rest tests : Str) :
    Nosec.testsGroup cc rest = tests ↔ Spec.TestsOf cc rest tests :=
  (Nosec.testsGroup_iff cc).symm

/-- **`Nosec.parse` is the grammar**, for every comment text.  The result is `some ids` iff the comment
reads as: anything, the leftmost `#\s*nosec`, an optional `:`, whitespace, the `tests` text up to the next `#`;
`tests` tokenises to `toks`; and `ids` are the tokens that are a known test id or the name of a known test
(replaced by its id), in order — unknown tokens are dropped. -/
theorem parse_is_grammar (cc : CharClasses) (hn : cc.isSpace 'n' = false) (reg : Registry) (comment : Str)
    (ids : List Str) :
    Nosec.parse cc reg comment = some ids ↔ Spec.NosecReads cc reg comment ids :=
  Nosec.parse_iff_reads cc hn reg comment ids

/-- … and it is `none` (not a nosec comment) iff `#\s*nosec` occurs nowhere -/
theorem parse_none_iff_no_marker (cc : CharClasses) (hn : cc.isSpace 'n' = false) (reg : Registry) (comment : Str) :
    Nosec.parse cc reg comment = none ↔ ¬ Spec.HasMarker cc comment :=
  Nosec.parse_none_iff cc hn reg comment

/-- the generated character classes and registry satisfy the side condition -/
theorem gen_parse_is_grammar (comment : Str) (ids : List Str) :
    Nosec.parse Gen.charClasses Gen.registry comment = some ids ↔
      Spec.NosecReads Gen.charClasses Gen.registry comment ids :=
  Nosec.parse_iff_reads Gen.charClasses (by decide +kernel) Gen.registry comment ids

/-- **Nothing known named ⇒ blanket.**  A nosec comment suppresses every test (`some []`) exactly when none
of its tokens is a known id or name — a bare `# nosec`, but also `# nosec because reasons` or a misspelt id. -/
theorem blanket_iff_nothing_known (cc : CharClasses) (hn : cc.isSpace 'n' = false) (reg : Registry)
    (comment rest tests : Str) (toks : List Str)
    (hm : Spec.FirstMarker cc comment rest) (ht : Spec.TestsOf cc rest tests) (hk : Spec.Tokens cc tests toks) :
    Nosec.parse cc reg comment = some [] ↔ ∀ t ∈ toks, reg.resolve t = none := by
  have hp : Nosec.parse cc reg comment = some (Spec.LookedUp reg toks) :=
    (parse_is_grammar cc hn reg comment _).mpr ⟨rest, tests, toks, hm, ht, hk, rfl⟩
  rw [hp]
  simp only [Option.some.injEq, Spec.LookedUp, List.filterMap_eq_nil_iff]

/-- every id a comment names comes from one of its tokens: the token itself when it is a known id,
otherwise the id of the test with that name -/
theorem named_ids_come_from_tokens (cc : CharClasses) (hn : cc.isSpace 'n' = false) (reg : Registry)
    (comment : Str) (ids : List Str) (h : Nosec.parse cc reg comment = some ids) :
    ∃ rest tests toks, Spec.FirstMarker cc comment rest ∧ Spec.TestsOf cc rest tests ∧ Spec.Tokens cc tests toks ∧
      ∀ i, i ∈ ids ↔ ∃ t ∈ toks, (reg.checkId t = true ∧ i = t) ∨ (reg.checkId t = false ∧ reg.getTestId t = some i) := by
  obtain ⟨rest, tests, toks, hm, ht, hk, rfl⟩ := (parse_is_grammar cc hn reg comment ids).mp h
  refine ⟨rest, tests, toks, hm, ht, hk, ?_⟩
  intro i
  simp only [Spec.LookedUp, List.mem_filterMap, Registry.resolve]
  constructor
  · rintro ⟨t, htm, hr⟩
    refine ⟨t, htm, ?_⟩
    by_cases hc : reg.checkId t = true
    · rw [if_pos hc] at hr; exact Or.inl ⟨hc, (Option.some.inj hr).symm⟩
    · rw [if_neg hc] at hr; exact Or.inr ⟨by simpa using hc, hr⟩
  · rintro ⟨t, htm, ⟨hc, rfl⟩ | ⟨hc, hg⟩⟩
    · exact ⟨i, htm, by rw [if_pos hc]⟩
    · exact ⟨t, htm, by rw [if_neg (by simp [hc])]; exact hg⟩

/-- the grammar on a text with every kind of separator (non-vacuity; note `B1x` ↦ `B1`, `x` but `xB2` ↦ `xB2`,
and that `-`, `;` and blanks separate like commas) -/
theorem tokens_example :
    Spec.Tokens Gen.charClasses "B101, B602,assert_used;b3-B1x  xB2 ,,".toList
      ["B101".toList, "B602".toList, "assert_used".toList, "b3".toList, "B1".toList, "x".toList, "xB2".toList] :=
  (captures_is_tokenisation _ _ _).mp (by decide +kernel)

/-- Whole-file findings (B613) are judged in the `File` pseudo-context, whose range is the placeholder line 0: no comment sits on line 0, so the only
nosec comment that can apply to such a finding is the one on its own reported line.  (On the pinned commit the placeholder range was `[0, 1]`, and a bare
`# nosec` on the FIRST line of a file withheld every B613 finding of the file: found by the C02 check when it learnt to place comments around file-level
findings, repaired by /repo `fix: a nosec comment on the first line of a file suppressed trojan-source findings on every line`.) -/
theorem file_level_nosec_is_line_local (nm : NosecMap) (raw : Raw) (h0 : nm.get 0 = none) :
    nosecsFor nm raw fileCtx = raw.lineno.bind nm.get := by
  unfold nosecsFor getNosec fileCtx
  simp only [List.findSome?, h0]
  cases raw.lineno.bind nm.get <;> rfl

/-- regression witness of the repaired defect: a bare comment on line 1 no longer reaches a file-level finding on line 4 -/
theorem FIXED_first_line_nosec_does_not_reach_file_findings :
    nosecsFor [(1, some [])] { sev := .high, conf := .medium, lineno := some 4 } fileCtx = none := by decide

end Props.C02
