import Bandit.Proofs.C03
/-!
# C03 — Exit status and threshold filtering tell CI the truth

Only property theorems live here (helper lemmas: `Bandit/Proofs/C03.lean`; model and `Spec`:
`Bandit/Cli.lean`).  `G` is the table value regenerated from `/repo` on every run
(`RANKING`, the `--severity-level`/`--confidence-level` if-chains, choices, defaults, the index
offset, the formatter names), so every theorem below that mentions `G` is re-checked against
what `main.py` and `constants.py` say *now*.

`Regular a w tS tC`: the invocation `a` in world `w` has no usage/configuration error, spells the
severity threshold `tS` and the confidence threshold `tC` in one of the ways the property names,
and the INI file, if any, leaves the thresholds alone (`Spec.iniInert`; its negation contains the
region of the known finding).
-/
namespace Props.C03
open Bandit Bandit.Cli

/-- **Exit status.** Without an error the exit status is 1 exactly when the report — the findings
of the unfiltered run that meet both thresholds, after the baseline comparison if there is one —
is non-empty and `--exit-zero` was not given. -/
theorem exit_one_iff {a : Args} {w : World} {tS tC : Rank} (h : Regular a w tS tC) :
    (main G a w).status = 1
      ↔ (w.post (Spec.reported tS tC w.findings) ≠ [] ∧ a.exitZero = false) := by
  rw [h.main_eq]
  simp only [Outcome.status, Spec.exitStatus]
  split <;> simp_all

/-- the same without a baseline, spelled out on the findings themselves -/
theorem exit_one_iff_exists {a : Args} {w : World} {tS tC : Rank} (h : Regular a w tS tC)
    (hb : w.baselineFilter = none) :
    (main G a w).status = 1
      ↔ ((∃ i ∈ w.findings, tS ≤ i.sev ∧ tC ≤ i.conf) ∧ a.exitZero = false) := by
  rw [exit_one_iff h]
  have hp : w.post (Spec.reported tS tC w.findings) = Spec.reported tS tC w.findings := by
    simp [World.post, hb]
  rw [hp]
  constructor
  · rintro ⟨hne, hz⟩
    obtain ⟨i, hi⟩ := List.exists_mem_of_ne_nil _ hne
    simp only [Spec.reported, List.mem_filter, Spec.meets, Bool.and_eq_true, decide_eq_true_eq] at hi
    exact ⟨⟨i, hi.1, hi.2⟩, hz⟩
  · rintro ⟨⟨i, hi, hs, hc⟩, hz⟩
    refine ⟨?_, hz⟩
    apply List.ne_nil_of_mem (a := i)
    simp only [Spec.reported, List.mem_filter, Spec.meets, Bool.and_eq_true, decide_eq_true_eq]
    exact ⟨hi, hs, hc⟩

/-- **…0 otherwise.** A regular run ends with status 0 or 1, never a diagnostic or a traceback. -/
theorem exit_zero_otherwise {a : Args} {w : World} {tS tC : Rank} (h : Regular a w tS tC)
    (h1 : (main G a w).status ≠ 1) : (main G a w).status = 0 := by
  rw [h.main_eq] at h1 ⊢
  simp only [Outcome.status, Spec.exitStatus] at h1 ⊢
  split <;> simp_all

/-- **`--exit-zero`.** A regular run with `--exit-zero` exits 0 whatever was found, and the report
is the same as without the flag. -/
theorem exit_zero_flag {a : Args} {w : World} {tS tC : Rank} (h : Regular a w tS tC)
    (hz : a.exitZero = true) :
    main G a w = .exit 0 (w.post (Spec.reported tS tC w.findings)) := by
  rw [h.main_eq]
  simp [Spec.exitStatus, hz]

/-- With `--exit-zero`, for *every* invocation, world and table value, the outcome "report written,
exit status 1" is impossible. -/
theorem exit_zero_never_one (T : Tables) (a : Args) (w : World) (hz : a.exitZero = true)
    (rep : List Issue) : main T a w ≠ .exit 1 rep := by
  unfold main run
  intro h
  repeat' split at h
  all_goals simp_all

/-- **The report is the filter.** Without a baseline the report consists of exactly the findings of
the unfiltered run whose severity *and* confidence rank at or above the thresholds, in the
unfiltered run's order and multiplicity. -/
theorem reported_is_filter {a : Args} {w : World} {tS tC : Rank} (h : Regular a w tS tC)
    (hb : w.baselineFilter = none) :
    ∃ code, main G a w
      = .exit code (w.findings.filter (fun i => decide (tS ≤ i.sev) && decide (tC ≤ i.conf))) := by
  refine ⟨Spec.exitStatus a.exitZero (Spec.reported tS tC w.findings), ?_⟩
  rw [h.main_eq]
  simp only [World.post, hb]
  rfl

/-- **Nothing is invented.** For every table value, invocation and world: whenever a report is
written, it is a sub-list of the unfiltered findings (provided the baseline comparison only
removes). -/
theorem reported_subset_unfiltered (T : Tables) (a : Args) (w : World)
    (hb : ∀ xs, (w.post xs).Sublist xs) {code : Nat} {rep : List Issue}
    (h : main T a w = .exit code rep) : rep.Sublist w.findings := by
  unfold main run at h
  repeat' split at h
  all_goals (cases h)
  all_goals exact filterResults_sublist hb ‹_›

/-- **Spelling equivalence (tables).** Over the generated tables, `k` occurrences of `-l`/`-i`
(`k = 0 … 3`) select the same threshold as `--severity-level`/`--confidence-level` with the name
`all/low/medium/high`, and that threshold is the rank the documentation assigns. -/
theorem spelling_equiv (k : Nat) (hk : k < 4) (r : Rank) (hr : Spec.ofCount k = some r) :
    thresholdOfCount G k = thresholdOfName G (Spec.nameOf k)
    ∧ confThresholdOfCount G k = confThresholdOfName G (Spec.nameOf k)
    ∧ thresholdOfCount G k = .ok r.name.toList
    ∧ confThresholdOfCount G k = .ok r.name.toList := by
  match k, hk, hr with
  | 0, _, hr | 1, _, hr | 2, _, hr | 3, _, hr =>
    cases Option.some.inj hr
    decide +kernel

/-- **Spelling equivalence (whole run).** For every world and all other options, replacing `k`
severity flags by the equivalent `--severity-level` name (or confidence likewise) does not change
the outcome of `main()` — report, exit status, diagnostics and all. -/
theorem spelling_equiv_main (a : Args) (w : World) (k : Nat) (hk : k < 4) :
    main G { a with sevFlags := k, sevName := none }
      w = main G { a with sevFlags := 0, sevName := some (Spec.nameOf k) } w
    ∧ main G { a with confFlags := k, confName := none } w
      = main G { a with confFlags := 0, confName := some (Spec.nameOf k) } w := by
  have key : ∀ a₁ a₂ : Args, usageError G a₁ = usageError G a₂ → sevArg G a₁ = sevArg G a₂ →
      confArg G a₁ = confArg G a₂ → a₁.multipleIni = a₂.multipleIni → a₁.targets = a₂.targets →
      a₁.profile = a₂.profile → a₁.baseline = a₂.baseline → a₁.format = a₂.format →
      a₁.msgTemplate = a₂.msgTemplate → a₁.exitZero = a₂.exitZero → a₁.iniLevel = a₂.iniLevel →
      a₁.iniConfidence = a₂.iniConfidence → main G a₁ w = main G a₂ w := by
    intro a₁ a₂ h1 h2 h3 h4 h5 h6 h7 h8 h9 h10 h11 h12
    unfold main run parseError setupError templateError
    rw [h1, h2, h3, h4, h5, h6, h7, h8, h9, h10, h11, h12]
  match k, hk with
  | 0, _ | 1, _ | 2, _ | 3, _ =>
    constructor <;> apply key <;> first | rfl | (simp [usageError, sevArg, confArg, levelArg, chainLookup, Spec.nameOf]; try decide +kernel)

/-- **Monotonicity.** Raising a threshold only removes findings from the report. -/
theorem filter_monotone {tS tC tS' tC' : Rank} (hS : tS ≤ tS') (hC : tC ≤ tC') (xs : List Issue)
    {ys ys' : List Issue}
    (h : filterIssues G.ranking tS.name.toList tC.name.toList xs = .ok ys)
    (h' : filterIssues G.ranking tS'.name.toList tC'.name.toList xs = .ok ys') :
    ys'.Sublist ys := by
  rw [filterIssues_gen] at h h'
  cases h; cases h'
  exact reported_mono hS hC xs

/-- **Errors exit 2.** Every usage or configuration error of the table — argparse rejections
(both spellings of one threshold at once, unknown level name or format, `-q` with `-v`,
`--msg-template` without `-f custom`, …), several `.bandit` files, unreadable/unparsable/non-mapping
config, no targets, unknown profile, include ∩ exclude ≠ ∅, unreadable baseline, baseline with a
non-baseline format, no tests to run — ends in a diagnostic and exit status 2, never a traceback,
whatever else is on the command line (including `-llll` or an INI `level`), as long as the INI
values can be evaluated (`iniConvertible`: always, while they are passed on as raw strings). -/
theorem error_exit_is_two (a : Args) (w : World) (h : Spec.isError G a w = true)
    (hconv : iniConvertible G a = true) :
    (∃ d, main G a w = .error d) ∧ (main G a w).status = 2 := by
  have key : ∃ d, main G a w = .error d := by
    rcases error_cases h with ⟨d, hd⟩ | ⟨hp, d, hd⟩
    · exact ⟨d, by simp [main, hd]⟩
    · unfold iniConvertible at hconv
      cases h1 : iniVal G.iniAsInt a.iniLevel with
      | error c => simp [h1] at hconv
      | ok il =>
        cases h2 : iniVal G.iniAsInt a.iniConfidence with
        | error c => simp [h1, h2] at hconv
        | ok ic => exact ⟨d, by simp [main, run, hp, h1, h2, hd]⟩
  obtain ⟨d, hd⟩ := key
  exact ⟨⟨d, hd⟩, by rw [hd]; rfl⟩

/-- on the tree as it is (the INI values are handed on as raw strings) that side condition is always met -/
theorem error_exit_is_two_raw (hraw : G.iniAsInt = false) (a : Args) (w : World)
    (h : Spec.isError G a w = true) : (∃ d, main G a w = .error d) ∧ (main G a w).status = 2 :=
  error_exit_is_two a w h (iniConvertible_raw a hraw)

/-- the errors detected while parsing the command line win unconditionally -/
theorem parse_error_exit_is_two (T : Tables) (a : Args) (w : World) (d : Diag) (h : parseError T a = some d) :
    main T a w = .error d := by
  simp [main, h]

/-- a malformed or tag-less `--msg-template` (detected by the custom formatter) also exits 2 -/
theorem template_error_exit_is_two {a : Args} {w : World} {tS tC : Rank}
    (he : Spec.isError G a w = false) (hi : Spec.iniInert G a = true)
    (hs : Spec.threshold a.sevFlags a.sevName = some tS)
    (hc : Spec.threshold a.confFlags a.confName = some tC)
    (ht : templateError a = true) : main G a w = .error .template := by
  obtain ⟨hp, hse⟩ := (errors_none_iff G a w).1 he
  obtain ⟨il, ic, h1, h2, h3, h4⟩ := iniInert_elim hi
  unfold main
  rw [hp]
  simp only [h1, h2, h3, h4]
  unfold run sevArg confArg
  rw [hse]
  simp only [sev_threshold_gen hs, conf_threshold_gen hc, filterResults_gen, ht]
  rfl

/-- **Exit 2 only for errors.** Conversely a diagnostic/exit 2 outcome occurs only when one of the
listed error conditions holds. -/
theorem exit_two_only_errors (a : Args) (w : World) (d : Diag) (h : main G a w = .error d) :
    Spec.isError G a w = true ∨ templateError a = true := by
  cases he : Spec.isError G a w with
  | true => exact .inl rfl
  | false =>
    right
    obtain ⟨hp, hse⟩ := (errors_none_iff G a w).1 he
    unfold main run at h
    rw [hp] at h
    simp only [hse] at h
    repeat' split at h
    all_goals first | assumption | (cases h; done) | simp_all

/-- the rows of the error table, one concrete invocation each (kernel-evaluated on the generated tables) -/
theorem error_exit_table :
    main G { targets := false } {} = .error .noTargets
    ∧ main G { profile := true } { profileFound := false } = .error .profile
    ∧ main G {} { profileValid := false } = .error .profile
    ∧ main G {} { configOk := false } = .error .config
    ∧ main G { baseline := true } { baselineReadable := false } = .error .baselineUnreadable
    ∧ main G { baseline := true, format := "csv".toList } {} = .error .baselineFormat
    ∧ main G {} { hasTests := false } = .error .noTests
    ∧ main G { msgTemplate := some .ok } {} = .error .usage
    ∧ main G { format := custom, msgTemplate := some .malformed } {} = .error .template
    ∧ main G { sevFlags := 1, sevName := some "low".toList } {} = .error .usage
    ∧ main G { confName := some "LOW".toList } {} = .error .usage
    ∧ main G { quiet := true, verbose := true } {} = .error .usage
    ∧ main G { format := "pdf".toList } {} = .error .usage
    ∧ main G { multipleIni := true } {} = .error .multipleIni := by
  decide +kernel

/-! ### The two places where `RANKING[args.severity - 1]` is partial -/

/-- **Observation (not demanded by the property, DESIGN §10 #19).** `-llll` is outside the spellings
the property lists (`Spec.threshold` is `none`), and `main()` leaves with an `IndexError`
traceback instead of a usage error. -/
theorem NEG_count_five :
    Spec.threshold 4 none = none
    ∧ Spec.isError G { sevFlags := 4 } {} = false
    ∧ main G { sevFlags := 4 } {} = .traceback .indexError
    ∧ main G { confFlags := 4 } {} = .traceback .indexError := by
  decide +kernel

/-- more flags never help: any count ≥ 4 without other error is an `IndexError` -/
theorem count_ge_four_traceback (a : Args) (w : World) (he : Spec.isError G a w = false)
    (hi : Spec.iniInert G a = true) (hn : a.sevName = none) (hk : 4 ≤ a.sevFlags) :
    main G a w = .traceback .indexError := by
  obtain ⟨hp, hse⟩ := (errors_none_iff G a w).1 he
  obtain ⟨il, ic, h1, h2, h3, h4⟩ := iniInert_elim hi
  unfold main
  rw [hp]
  simp only [h1, h2, h3, h4]
  unfold run
  rw [hse]
  have : thresholdOf G.ranking G.sevOffset (.int (sevArg G a)) = .error .indexError := by
    simp only [sevArg, hn, thresholdOf, levelArg, pyGet]
    have h1 : ¬ ((((G.sevDefault + a.sevFlags : Nat) : Int) - (G.sevOffset : Int)) < 0) := by
      show ¬ ((((1 + a.sevFlags : Nat) : Int) - ((1 : Nat) : Int)) < 0)
      omega
    simp only [h1, if_false]
    have h2 : (((G.sevDefault + a.sevFlags : Nat) : Int) - (G.sevOffset : Int)).toNat = a.sevFlags := by
      show (((1 + a.sevFlags : Nat) : Int) - ((1 : Nat) : Int)).toNat = a.sevFlags
      omega
    rw [h2]
    have h3 : G.ranking[a.sevFlags]? = none := by
      apply List.getElem?_eq_none
      show 4 ≤ a.sevFlags
      exact hk
    rw [h3]
  simp only [this]

/-- **Counter-example (known finding `C03-ini-level-traceback`).** While `main()` hands the INI
string to `_log_option_source` unconverted (`G.iniAsInt = false`, read off the source on every run):
a `.bandit` file with `level = 2` (or `confidence = 2`), nothing else unusual, a file without
findings — there is no error in the sense of the table and the property demands exit status 0 —
ends in a `TypeError` traceback (`'2' - 1`). -/
theorem NEG_ini_level : G.iniAsInt = false →
    Spec.isError G { iniLevel := some "2".toList } {} = false
    ∧ main G { iniLevel := some "2".toList } {} = .traceback .typeError
    ∧ main G { iniConfidence := some "2".toList } {} = .traceback .typeError
    ∧ main G { sevName := some "all".toList, iniLevel := some "2".toList } {} = .traceback .typeError := by
  decide +kernel

/-- the whole region of that finding: whenever a raw INI `level`/`confidence` string takes effect
and no error exit precedes, the run ends in a traceback — no INI value works -/
theorem ini_level_always_traceback (a : Args) (w : World) (he : Spec.isError G a w = false)
    (hi : Spec.iniRawEffective G a = true) : ∃ c, main G a w = .traceback c := by
  obtain ⟨hp, hse⟩ := (errors_none_iff G a w).1 he
  simp only [Spec.iniRawEffective, Bool.and_eq_true, Bool.not_eq_true'] at hi
  obtain ⟨hraw, hin⟩ := hi
  obtain ⟨il, h1⟩ := iniVal_raw a.iniLevel
  obtain ⟨ic, h2⟩ := iniVal_raw a.iniConfidence
  rw [← hraw] at h1 h2
  unfold main
  rw [hp]
  simp only [h1, h2]
  unfold run
  rw [hse]
  simp only [Spec.iniInert, h1, h2, Bool.and_eq_false_iff, beq_eq_false_iff_ne] at hin
  cases hs : logOptionSource G.sevDefault (sevArg G a) il with
  | str s => exact ⟨.typeError, by simp [thresholdOf]⟩
  | int n =>
    cases hc : logOptionSource G.confDefault (confArg G a) ic with
    | str s =>
      cases ht : thresholdOf G.ranking G.sevOffset (.int n) with
      | error c => exact ⟨c, by simp⟩
      | ok v => exact ⟨.typeError, by simp [thresholdOf]⟩
    | int m =>
      exfalso
      -- a raw INI value either is absent/ignored (`.int arg`) or shows up as `.str`
      have e1 : n = sevArg G a := logOptionSource_raw_int (hraw ▸ h1) hs
      have e2 : m = confArg G a := logOptionSource_raw_int (hraw ▸ h2) hc
      subst e1 e2
      rcases hin with h | h <;> exact h (by assumption)

/-- **After the proposed fix** (`int(ini_options.get("level") or 0) or None`, i.e. `G.iniAsInt = true`):
an INI `level = k` then means the same as `k - 1` flags on the command line.  (While the fix is not
applied the hypothesis is false and the theorem says nothing.) -/
theorem FIXED_ini_level_is_count : G.iniAsInt = true →
    ∀ w : World,
      main G { iniLevel := some "1".toList } w = main G {} w
      ∧ main G { iniLevel := some "2".toList } w = main G { sevFlags := 1 } w
      ∧ main G { iniLevel := some "3".toList } w = main G { sevFlags := 2 } w
      ∧ main G { iniLevel := some "4".toList } w = main G { sevFlags := 3 } w
      ∧ main G { iniConfidence := some "3".toList } w = main G { confFlags := 2 } w := by
  intro h w
  have hh : Gen.cliTables.iniAsInt = true := h
  refine ⟨?_, ?_, ?_, ?_, ?_⟩ <;>
    simp [main, parseError, usageError, iniVal, hh, pyInt, logOptionSource, sevArg, confArg, levelArg, custom] <;>
    rfl

/-! ### Non-vacuity -/

/-- three findings, `-ll -ii`: the hypotheses of the theorems above are satisfiable, the report is
the one MEDIUM/MEDIUM-or-better finding and the status is 1; with `--exit-zero` it is 0 -/
example :
    let fs : List Issue := [⟨"a.py".toList, "B101".toList, .low, .high, 1⟩,
                            ⟨"a.py".toList, "B104".toList, .medium, .medium, 2⟩,
                            ⟨"a.py".toList, "B604".toList, .medium, .low, 3⟩]
    Regular { sevFlags := 2, confFlags := 2 } { findings := fs } .medium .medium
    ∧ main G { sevFlags := 2, confFlags := 2 } { findings := fs } = .exit 1 [⟨"a.py".toList, "B104".toList, .medium, .medium, 2⟩]
    ∧ main G { sevName := some "medium".toList, confName := some "medium".toList, exitZero := true } { findings := fs }
        = .exit 0 [⟨"a.py".toList, "B104".toList, .medium, .medium, 2⟩]
    ∧ main G { sevFlags := 3 } { findings := fs } = .exit 0 [] := by
  refine ⟨⟨?_, ?_, ?_, ?_, ?_⟩, ?_, ?_, ?_⟩ <;> decide +kernel

/-- an INI `level` that the command line overrides is inert: `Regular` covers such runs -/
example : Regular { sevFlags := 2, iniLevel := some "3".toList } {} .medium .undefined := by
  refine ⟨?_, ?_, ?_, ?_, ?_⟩ <;> decide +kernel

/-- the error hypothesis is satisfiable -/
example : Spec.isError G { targets := false } {} = true := by decide +kernel

end Props.C03
