import Bandit.Proofs.Manager
/-!
# C04 — a scan always completes and accounts for every file

Property theorems over `Bandit.Manager.run` (the model of `BanditManager.run_tests`).  They hold
for **every** list of discovered files and **every** assignment of step outcomes to files
(`out : Str → Outcome`), under explicit decidable hypotheses:

* `files.Nodup` and `stdinName ∉ files` — what `discover_files` guarantees by construction
  (a `set`, sorted; every name is `-`, `./…` or `<dir>/…`, never the literal `<stdin>`);
* `Spec.ordinary (out f)` — every failure is an `Exception` subclass and `open` fails only with
  `OSError`.  **PARTIAL**: that CPython behaves so on arbitrary bytes, nesting depth and I/O faults
  (no segfault, no C-stack overflow, no `BaseException`) is runtime behaviour which the harness
  *explores* (fault enumeration + byte-level fuzz) and the model cannot exhibit.
  `KeyboardInterrupt` is outside `ordinary` and treated by `interrupt_exits_2`.

Helper lemmas are in `Bandit/Proofs/Manager.lean`.
-/
namespace Props.C04
open Bandit Bandit.Manager Bandit.Manager.Spec

variable {α : Type}

/-- **The scan completes and the report is reached**: with ordinary failures only, no exception
leaves `run_tests` and `metrics.aggregate()` is reached — whatever the files do.
(`run` is a total function: it returns for every input, ordinary or not.) -/
theorem report_total (cfg : Cfg) (env : Env α) (out : Str → Outcome) (files : List Str)
    (hn : files.Nodup) (hs : stdinName ∉ files) (hord : ∀ f ∈ files, ordinary (out f) = true) :
    (run cfg env out files).escaped = none ∧ (run cfg env out files).aggregated = true := by
  rw [run_closed cfg env out files hn hs hord]; exact ⟨rfl, rfl⟩

/-- **KeyboardInterrupt** raised by any step inside `_parse_file` (read, tokenise, parse, visit, a
check) of the first non-ordinary file ends the run with `SystemExit(2)`; no report is produced. -/
theorem interrupt_exits_2 (cfg : Cfg) (env : Env α) (out : Str → Outcome) (pre post : List Str) (f : Str) (b : Bool)
    (hn : (pre ++ f :: post).Nodup) (hs : stdinName ∉ pre ++ f :: post)
    (hord : ∀ g ∈ pre, ordinary (out g) = true)
    (hopen : (out f).open_ = none) (hint : body cfg (out f) = .raised b .keyboardInterrupt) :
    (run cfg env out (pre ++ f :: post)).escaped = some (.systemExit 2) ∧
    (run cfg env out (pre ++ f :: post)).aggregated = false := by
  unfold run
  rw [loop_append, loop_closed cfg env out pre [] (f :: post) _ hord (by simp) (by simpa using inv_init hn hs)]
  simp only [loop]
  have h := runOne_interrupt cfg env (out f) f
    { newFiles := [] ++ scannedOf cfg env out pre ++ f :: post,
      skipped := [] ++ skippedOf cfg env out pre, results := [] ++ resultsOf cfg env out pre,
      scores := [] ++ scannedOf cfg env out pre, metricsBegun := [] ++ begunOf cfg env out pre,
      metricsCounted := [] ++ scannedOf cfg env out pre } b hopen hint
  revert h
  cases runOne cfg env (out f) f _ with
  | mk st' e =>
    intro h
    simp only at h
    subst h
    exact ⟨rfl, rfl⟩

/-- **Accounting**: the files reported as scanned together with the files reported as skipped are
exactly the discovered files (as multisets; `<stdin>` stands for the target `-`). -/
theorem accounting (cfg : Cfg) (env : Env α) (out : Str → Outcome) (files : List Str)
    (hn : files.Nodup) (hs : stdinName ∉ files) (hord : ∀ f ∈ files, ordinary (out f) = true) :
    Accounted files (run cfg env out files) := by
  unfold Accounted
  rw [run_closed cfg env out files hn hs hord]
  exact perm_flatMap_accounts cfg env out files hord hs

/-- without a stdin target the reported names are the discovered names themselves -/
theorem accounting_plain (cfg : Cfg) (env : Env α) (out : Str → Outcome) (files : List Str)
    (hn : files.Nodup) (hs : stdinName ∉ files) (hd : stdinArg ∉ files)
    (hord : ∀ f ∈ files, ordinary (out f) = true) :
    ((run cfg env out files).filesList ++ (run cfg env out files).skipped.map (·.1)).Perm files := by
  have h := accounting cfg env out files hn hs hord
  unfold Accounted at h
  have hid : ∀ x ∈ ((run cfg env out files).filesList ++ (run cfg env out files).skipped.map (·.1)), target x = x := by
    intro x hx
    by_cases hxs : x = stdinName
    · exfalso
      have : target x ∈ files := h.mem_iff.mp (List.mem_map_of_mem hx)
      rw [hxs] at this
      simp only [target, if_true] at this
      exact hd this
    · exact target_of_ne hxs
  rwa [List.map_congr_left hid, List.map_id'] at h

/-- **Exactly once**: no file is listed twice, none is both scanned and skipped. -/
theorem accounted_once (cfg : Cfg) (env : Env α) (out : Str → Outcome) (files : List Str)
    (hn : files.Nodup) (hs : stdinName ∉ files) (hord : ∀ f ∈ files, ordinary (out f) = true) :
    AccountedOnce (run cfg env out files) := by
  have h := accounting cfg env out files hn hs hord
  exact nodup_of_map target ((h.nodup_iff).mpr hn)

/-- scanned and skipped are disjoint (a consequence spelled out) -/
theorem scanned_not_skipped (cfg : Cfg) (env : Env α) (out : Str → Outcome) (files : List Str)
    (hn : files.Nodup) (hs : stdinName ∉ files) (hord : ∀ f ∈ files, ordinary (out f) = true) :
    ∀ x ∈ (run cfg env out files).filesList, x ∉ (run cfg env out files).skipped.map (·.1) := by
  have h := accounted_once cfg env out files hn hs hord
  unfold AccountedOnce at h
  intro x hx hk
  exact (List.nodup_append.mp h).2.2 x hx x hk rfl

/-- **Skipped with a reason**: every skipped entry carries a non-empty reason, provided OS-level
failures of `open` carry an error text (`e.strerror`; true of every error the OS reports). -/
theorem skipped_has_reason (cfg : Cfg) (env : Env α) (out : Str → Outcome) (files : List Str)
    (hn : files.Nodup) (hs : stdinName ∉ files) (hord : ∀ f ∈ files, ordinary (out f) = true)
    (hnamed : ∀ f ∈ files, openErrorsNamed (out f) = true) :
    Reasoned (run cfg env out files) := by
  unfold Reasoned
  rw [run_closed cfg env out files hn hs hord]
  intro e he
  simp only [skippedOf, List.mem_flatMap] at he
  obtain ⟨f, hf, he⟩ := he
  exact delta_reasoned cfg env (out f) f (hnamed f hf) e he

/-- the hypothesis of `skipped_has_reason` is needed: `OSError("msg")` has `strerror = None` and the
code stores that `None` as the reason (`self.skipped.append((fname, e.strerror))`) -/
theorem reason_none_without_strerror :
    (run (α := Nat) {} ⟨fun _ => [], fun _ => []⟩ (fun _ => { open_ := some (.osError none) }) ["./a.py".toList]).skipped
      = [("./a.py".toList, none)] := by decide

/-- **Isolation, every position**: the findings reported for a file are those of scanning it alone —
for every position of the file in the list and every (ordinary) outcome of every other file. -/
theorem isolation (cfg : Cfg) (env : Env α) (out : Str → Outcome) (pre post : List Str) (f : Str)
    (hn : (pre ++ f :: post).Nodup) (hs : stdinName ∉ pre ++ f :: post)
    (hord : ∀ g ∈ pre ++ f :: post, ordinary (out g) = true) :
    (run cfg env out (pre ++ f :: post)).findingsFor (display f) =
      (run cfg env out [f]).findingsFor (display f) := by
  have hf : f ≠ stdinName := fun h => hs (h ▸ by simp)
  have hmem : f ∈ pre ++ f :: post := by simp
  rw [run_closed cfg env out _ hn hs hord,
      run_closed cfg env out [f] (by simp) (by simpa using hf.symm) (by simpa using hord f hmem)]
  simp only [Report.findingsFor]
  rw [results_filter cfg env out f hf _ hn hs hmem,
      results_filter cfg env out f hf [f] (by simp) (by simpa using hf.symm) (by simp)]

/-- **Isolation, every outcome of the others**: changing what happens to *other* files — healthy,
faulty at any step, with any exception class — never changes the findings reported for `f`. -/
theorem isolation_outcomes (cfg : Cfg) (env : Env α) (out out' : Str → Outcome) (files : List Str) (f : Str)
    (hn : files.Nodup) (hs : stdinName ∉ files) (hmem : f ∈ files) (hsame : out f = out' f)
    (hord : ∀ g ∈ files, ordinary (out g) = true) (hord' : ∀ g ∈ files, ordinary (out' g) = true) :
    (run cfg env out files).findingsFor (display f) = (run cfg env out' files).findingsFor (display f) := by
  have hf : f ≠ stdinName := fun h => hs (h ▸ hmem)
  rw [run_closed cfg env out _ hn hs hord, run_closed cfg env out' _ hn hs hord']
  simp only [Report.findingsFor]
  rw [results_filter cfg env out f hf _ hn hs hmem, results_filter cfg env out' f hf _ hn hs hmem, hsame]

/-- a healthy file (every step returns) is reported with exactly its own findings, wherever it
stands and whatever happens to the others -/
theorem healthy_findings (cfg : Cfg) (env : Env α) (out : Str → Outcome) (files : List Str) (f : Str)
    (hn : files.Nodup) (hs : stdinName ∉ files) (hmem : f ∈ files) (hhealthy : out f = {})
    (hord : ∀ g ∈ files, ordinary (out g) = true) :
    (run cfg env out files).findingsFor (display f) = env.full f ∧
    display f ∈ (run cfg env out files).filesList := by
  have hf : f ≠ stdinName := fun h => hs (h ▸ hmem)
  rw [run_closed cfg env out _ hn hs hord]
  simp only [Report.findingsFor]
  rw [results_filter cfg env out f hf _ hn hs hmem]
  constructor
  · cases cfg with
    | mk ign dbg => cases ign <;> simp [hhealthy, delta, body, tokEscape, visitEffect, List.map_map, Function.comp_def]
  · simp only [scannedOf, List.mem_flatMap]
    refine ⟨f, hmem, ?_⟩
    cases cfg with
    | mk ign dbg => cases ign <;> simp [hhealthy, delta, body, tokEscape, visitEffect]

/-- **Results are committed only after a completed visit**: every reported finding belongs to a file
listed as scanned — a skipped file never contributes findings. -/
theorem no_findings_from_skipped (cfg : Cfg) (env : Env α) (out : Str → Outcome) (files : List Str)
    (hn : files.Nodup) (hs : stdinName ∉ files) (hord : ∀ f ∈ files, ordinary (out f) = true) :
    ∀ r ∈ (run cfg env out files).results, r.1 ∈ (run cfg env out files).filesList := by
  rw [run_closed cfg env out files hn hs hord]
  intro r hr
  simp only [resultsOf, scannedOf, List.mem_flatMap] at hr ⊢
  obtain ⟨f, hf, hr⟩ := hr
  have := delta_results_name cfg env (out f) f r hr
  exact ⟨f, hf, by rw [this.2, this.1]; simp⟩

/-- **Bookkeeping stays aligned**: `scores` has one entry per scanned file, in the order of
`files_list` (the text formatter zips the two), and issue counts are recorded for exactly the
scanned files. -/
theorem scores_aligned (cfg : Cfg) (env : Env α) (out : Str → Outcome) (files : List Str)
    (hn : files.Nodup) (hs : stdinName ∉ files) (hord : ∀ f ∈ files, ordinary (out f) = true) :
    (run cfg env out files).scores = (run cfg env out files).filesList ∧
    (run cfg env out files).metricsCounted = (run cfg env out files).filesList := by
  rw [run_closed cfg env out files hn hs hord]; exact ⟨rfl, rfl⟩

/-! ## The skip ladder, arm by arm (which failure gives which reason) -/

/-- an `OSError` at `open` is skipped under the discovered name with the OS error text -/
theorem open_oserror_reason (cfg : Cfg) (env : Env α) (o : Outcome) (f : Str) (s : Option Str)
    (h : o.open_ = some (.osError s)) :
    (run cfg env (fun _ => o) [f]).skipped = [(f, s)] ∧ (run cfg env (fun _ => o) [f]).filesList = [] := by
  simp [run, loop, runOne, h, skipFile]

/-- …whereas an `OSError` from `read` (inside `_parse_file`) is swallowed by `except Exception` and
loses its text -/
theorem read_oserror_reason (cfg : Cfg) (env : Env α) (o : Outcome) (f : Str) (s : Option Str)
    (ho : o.open_ = none) (h : o.read = some (.osError s)) (hf : f ≠ stdinArg) :
    (run cfg env (fun _ => o) [f]).skipped = [(f, some reasonException)] := by
  simp [run, loop, runOne, parseFile, body, ho, h, hf, skipFile, Exc.isException]

/-! ## "…and a report is produced": the excerpt step of the report stage -/

/-- **Report produced.**  With the lenient decoding of stdin excerpts (the code since /repo commit
afafbd8; `currentStrictDecode = false`) rendering the issues never fails on the excerpt step, whatever
bytes the scanned sources contain. -/
theorem report_produced (maxLines : Nat) (issues : List IssueLoc) :
    reportProduced currentStrictDecode maxLines issues = true := by
  unfold reportProduced
  rw [List.all_eq_true]
  intro i _
  simp [excerptRaises, currentStrictDecode]

/-- **Report produced (partial) — the pinned commit's strict decoding.**  Rendering never failed on the
excerpt step provided every line of a *stdin* target that falls into an excerpt window decoded as UTF-8
(guard `stdinUtf8`).  Files given by name were unconstrained. -/
theorem report_produced_partial (maxLines : Nat) (issues : List IssueLoc)
    (stdinUtf8 : ∀ i ∈ issues, i.fname = stdinName → ∀ b ∈ i.utf8, b = true) :
    reportProduced true maxLines issues = true := by
  unfold reportProduced
  rw [List.all_eq_true]
  intro i hi
  unfold excerptRaises
  by_cases hf : i.fname = stdinName
  · have hall := stdinUtf8 i hi hf
    simp only [hf, decide_true, Bool.true_and, Bool.not_eq_true', List.any_eq_false]
    intro b hb
    have := hall b (List.mem_of_mem_drop (List.mem_of_mem_take hb))
    simp [this]
  · simp [hf]

/-- without a stdin target a report was always produced, whatever bytes the files contain -/
theorem report_produced_files (maxLines : Nat) (issues : List IssueLoc)
    (h : ∀ i ∈ issues, i.fname ≠ stdinName) : reportProduced true maxLines issues = true :=
  report_produced_partial maxLines issues (fun i hi hf => absurd hf (h i hi))

/-- **Witness of the repaired defect** (kernel-checked; kept as a regression scenario of the harness):
under strict decoding `printf 'import pickle\nx = 1 # \xff\n' | bandit -` — B403 on line 1, excerpt
window lines 1–3, line 2 not UTF-8 — made `get_code` raise and no report was produced. -/
theorem NEG_stdin_excerpt_not_utf8 :
    reportProduced true 3 [{ fname := stdinName, lineno := 1, rangeLen := 1, utf8 := [true, false, true] }] = false := by
  decide

/-! ## Non-vacuity: concrete runs (kernel-evaluated) -/

section Examples
open Bandit.Manager.Example

/-- the hypotheses of the theorems are satisfiable by a non-trivial input -/
example : files0.Nodup ∧ stdinName ∉ files0 ∧ (∀ f ∈ files0, ordinary (out0 f) = true) ∧
    (∀ f ∈ files0, openErrorsNamed (out0 f) = true) := by decide

example : run {} env0 out0 files0 =
    { filesList := [a, d],
      skipped := [(stdinName, some reasonException), (b, some reasonSyntax), (c, some "Permission denied".toList)],
      results := [(a, 6), (a, 7), (d, 6)],
      scores := [a, d], metricsBegun := [stdinName, a, b, d], metricsCounted := [a, d],
      aggregated := true, escaped := none } := by decide

/-- with `--debug` the tester re-raises: the file with the crashing check is skipped instead -/
example : (run { debug := true } env0 out0 files0).filesList = [a] ∧
    (run { debug := true } env0 out0 files0).results = [(a, 6), (a, 7)] := by decide

/-- a healthy stdin target is reported as `<stdin>` -/
example : (run {} env0 (fun _ => {}) [stdinArg, a]).filesList = [stdinName, a] := by decide

/-- KeyboardInterrupt while visiting `a`: exit status 2, `aggregate` not reached -/
example : (run {} env0 (fun f => if f = a then { visit := .raised .keyboardInterrupt } else {}) [a, b]).escaped
    = some (.systemExit 2) := by decide

/-- outside `ordinary`: a non-`OSError` from `open` is caught by neither ladder (the hypothesis of
`report_total` cannot simply be dropped) -/
example : (run {} env0 (fun _ => { open_ := some .otherException }) [a]).escaped = some .otherException := by decide

end Examples

end Props.C04
