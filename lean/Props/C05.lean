import Bandit.Proofs.C05
import Bandit.Gen.Blacklists
import Bandit.Gen.Registry
/-!
# C05 — Selecting tests filters findings and never changes them
-/
namespace Props.C05
open Bandit

/-- every modelled plugin check leaves its test ID to the tester (so it can only ever report
under its own ID) -/
theorem plugins_emit_own_id (pc : PluginCfg) (fileName : Str) :
    ∀ c ∈ pluginChecks pc fileName, IsPlugin c := by
  intro c hc
  simp only [pluginChecks, Plugins.miscChecks, Plugins.shellChecks, Plugins.cryptoChecks, Plugins.trojanChecks, Plugins.injectChecks,
    Plugins.injectChecksWith, List.mem_append,
    List.mem_cons, List.not_mem_nil, or_false] at hc
  -- one alternative per registered check, whatever their number
  repeat' (refine Or.elim hc ?_ ?_ <;> clear hc <;> intro hc)
  all_goals (subst hc; first | exact isPlugin_plugin _ _ _ _ | exact isPlugin_pluginPos _ _ _ _)

/-- **Restriction = filter (partial).**  For every file, nosec map, plugin configuration, tables and
selection: the events (findings and nosec-withheld findings) of the scan restricted to the IDs in
`keep` are exactly the events of the unrestricted scan whose test ID is in `keep` — under `SelHyp`:
table keys unique, rule IDs non-empty, Import and ImportFrom tables equal, and the *guard* that no
unselected blacklist rule masks a selected one at any node (`NoMask`; the blacklist stops at the
first matching rule).  Internal-error events carry no test ID and are excluded on both sides. -/
theorem restrict_is_filter_partial (pc : PluginCfg) (fileName : Str) (t : BlTables) (keep : Str → Bool)
    (hs : SelHyp t keep) (inp : FileInput) :
    (scanFile (testSet pc fileName t keep) inp).filter hasId
      = (scanFile (fullTestSet pc fileName t) inp).filter (keepEvent keep) := by
  have hp := plugins_emit_own_id pc fileName
  simp only [scanFile, List.filter_append]
  rw [scanVisits_restrict pc fileName t keep hs hp]
  congr 1
  exact checks_restrict_kind pc fileName t keep hs hp inp.nosec _ "File".toList _ dispatch_fileNode

/-- corollary on reported findings -/
theorem restricted_findings (pc : PluginCfg) (fileName : Str) (t : BlTables) (keep : Str → Bool)
    (hs : SelHyp t keep) (inp : FileInput) :
    findingsOf (scanFile (testSet pc fileName t keep) inp)
      = (findingsOf (scanFile (fullTestSet pc fileName t) inp)).filter (fun f => keep f.id) := by
  have h := restrict_is_filter_partial pc fileName t keep hs inp
  have e1 : ∀ es : List Event, findingsOf (es.filter hasId) = findingsOf es := by
    intro es; induction es with
    | nil => rfl
    | cons e es ih => cases e <;> simp_all [findingsOf, hasId, eventId, List.filter_cons, List.filterMap_cons]
  have e2 : ∀ es : List Event, findingsOf (es.filter (keepEvent keep)) = (findingsOf es).filter (fun f => keep f.id) := by
    intro es; induction es with
    | nil => rfl
    | cons e es ih =>
      cases e with
      | finding f =>
        by_cases hk : keep f.id = true <;>
          simp_all [findingsOf, keepEvent, eventId, List.filter_cons, List.filterMap_cons]
      | nosec f => by_cases hk : keep f.id = true <;> simp_all [findingsOf, keepEvent, eventId, List.filter_cons, List.filterMap_cons]
      | skipped f => by_cases hk : keep f.id = true <;> simp_all [findingsOf, keepEvent, eventId, List.filter_cons, List.filterMap_cons]
      | crash n => simp_all [findingsOf, keepEvent, eventId, List.filter_cons, List.filterMap_cons]
  rw [← e1, h, e2]

/-- **Enabling more checks never hides a finding** (same guard, for both selections) -/
theorem monotone (pc : PluginCfg) (fileName : Str) (t : BlTables) (keep keep' : Str → Bool)
    (hs : SelHyp t keep) (hs' : SelHyp t keep') (hsub : ∀ i, keep i = true → keep' i = true)
    (inp : FileInput) (f : Finding)
    (hf : f ∈ findingsOf (scanFile (testSet pc fileName t keep) inp)) :
    f ∈ findingsOf (scanFile (testSet pc fileName t keep') inp) := by
  rw [restricted_findings pc fileName t keep hs] at hf
  rw [restricted_findings pc fileName t keep' hs']
  obtain ⟨h1, h2⟩ := List.mem_filter.mp hf
  exact List.mem_filter.mpr ⟨h1, hsub _ h2⟩

/-- **Counter-example to the unguarded statement** (known finding): `import pickle, subprocess`
— the unrestricted blacklist reports only B403 (first match wins), selecting B404 alone adds B404. -/
theorem NEG_blacklist_first_match :
    let names := ["pickle".toList, "subprocess".toList]
    (firstImportRule Gen.rulesImport names).map (·.id) = some "B403".toList ∧
    (firstImportRule (Gen.rulesImport.filter (fun r => r.id == "B404".toList)) names).map (·.id) = some "B404".toList := by
  decide +kernel

/-! ### `_get_filter` -/

/-- `B001` alone selects every blacklist ID -/
theorem b001_alone_is_all_blacklist (u : IdUniverse) (i : Str) (hi : i ∈ u.blacklist) (hne : i ≠ b001)
    (hb : b001 ∉ u.blacklist) :
    i ∈ getFilter u { incl := [b001] } := by
  have hex : ∃ x, x ∈ u.blacklist ∧ ¬ x = b001 := ⟨i, hi, hne⟩
  simp [getFilter, expandB001, hb, List.mem_filter, hi, hne, hex]

/-- `B001` together with a specific blacklist ID selects only the specific ones -/
theorem b001_with_specific (u : IdUniverse) (i j : Str) (hi : i ∈ u.blacklist) (hj : j ≠ i) (hjb : j ≠ b001)
    (hib : i ≠ b001) : j ∉ getFilter u { incl := [b001, i] } := by
  have hc : u.blacklist.contains i = true := by simpa using hi
  have hib' : (i != b001) = true := by simpa using hib
  have hany : ([b001, i].any fun x => u.blacklist.contains x) = true := by simp [hi]
  have hcont : [b001, i].contains b001 = true := by simp
  unfold getFilter expandB001
  simp only [hany, hcont, if_true]
  have hf : ([b001, i].filter (· != b001)) = [i] := by simp [List.filter_cons, hib']
  simp [hf, hj]

/-- an excluded ID never runs -/
theorem excluded_never_runs (u : IdUniverse) (p : Profile) (i : Str) (hi : i ∈ p.excl) (hb : b001 ∉ p.excl) :
    i ∉ getFilter u p := by
  have hc : p.excl.contains b001 = false := by simpa using hb
  have : expandB001 u p.excl = p.excl := by simp [expandB001, hb]
  unfold getFilter
  simp only [this]
  intro hmem
  have := (List.mem_filter.mp hmem).2
  simp [hi] at this

/-- an ID that is both included and excluded is rejected -/
theorem contradiction_rejected (p : Profile) (i : Str) (h1 : i ∈ p.incl) (h2 : i ∈ p.excl) :
    profileRejected p = true := by
  simp only [profileRejected, List.any_eq_true]
  exact ⟨i, h1, by simpa using h2⟩

/-! ### instances over the generated tables -/

/-- the generated tables satisfy the table-side hypotheses of `SelHyp` -/
theorem gen_tables_selhyp :
    (Gen.blTables.map (·.1)).Nodup ∧
    (∀ kind ∈ ["Call".toList, "Import".toList, "ImportFrom".toList], ∀ r ∈ Gen.blTables.rulesFor kind, r.id ≠ []) ∧
    Gen.blTables.rulesFor "Import".toList = Gen.blTables.rulesFor "ImportFrom".toList ∧
    (∀ kv ∈ Gen.blTables, kv.2 ≠ []) := by
  decide +kernel

/-- in the generated Call table no qualified name belongs to two rules with different IDs:
for calls the no-masking guard holds for every selection -/
theorem gen_call_rules_unambiguous :
    ∀ r1 ∈ Gen.rulesCall, ∀ r2 ∈ Gen.rulesCall, ∀ q ∈ r1.qualnames, q ∈ r2.qualnames → r1.id = r2.id := by
  decide +kernel

end Props.C05
