import Bandit.Proofs.C05
import Bandit.Gen.Blacklists
import Bandit.Gen.Registry
/-!
# C05 — Selecting tests filters findings and never changes them
-/
namespace Props.C05
open Bandit

/-- every modelled plugin check leaves its test ID to the tester (so it can only ever report
under its own ID) -/
theorem plugins_emit_own_id (pc : PluginCfg) (fileName : Str) :
    ∀ c ∈ pluginChecks pc fileName, IsPlugin c := by
  intro c hc
  simp only [pluginChecks, Plugins.miscChecks, Plugins.shellChecks, Plugins.cryptoChecks, Plugins.trojanChecks, Plugins.injectChecks,
    Plugins.injectChecksWith, List.mem_append,
    List.mem_cons, List.not_mem_nil, or_false] at hc
  -- one alternative per registered check, whatever their number
  repeat' (refine Or.elim hc ?_ ?_ <;> clear hc <;> intro hc)
  all_goals (subst hc; first | exact isPlugin_plugin _ _ _ _ | exact isPlugin_pluginPos _ _ _ _)

/-- **Restriction = filter (partial).**  For every file, nosec map, plugin configuration, tables and
selection: the events (findings and nosec-withheld findings) of the scan restricted to the IDs in
`keep` are exactly the events of the unrestricted scan whose test ID is in `keep` — under `SelHyp`:
table keys unique, rule IDs non-empty, Import and ImportFrom tables equal, and the *guard* that no
unselected blacklist rule masks a selected one at any node (`NoMask`; the blacklist stops at the
first matching rule).  Internal-error events carry no test ID and are excluded on both sides. -/
theorem restrict_is_filter_partial (pc : PluginCfg) (fileName : Str) (t : BlTables) (keep : Str → Bool)
    (hs : SelHyp t keep) (inp : FileInput) :
    (scanFile (testSet pc fileName t keep) inp).filter hasId
      = (scanFile (fullTestSet pc fileName t) inp).filter (keepEvent keep) := by
  have hp := plugins_emit_own_id pc fileName
  simp only [scanFile, List.filter_append]
  rw [scanVisits_restrict pc fileName t keep hs hp]
  congr 1
  exact checks_restrict_kind pc fileName t keep hs hp inp.nosec _ "File".toList _ dispatch_fileNode

/-- corollary on reported findings -/
theorem restricted_findings (pc : PluginCfg) (fileName : Str) (t : BlTables) (keep : Str → Bool)
    (hs : SelHyp t keep) (inp : FileInput) :
    findingsOf (scanFile (testSet pc fileName t keep) inp)
      = (findingsOf (scanFile (fullTestSet pc fileName t) inp)).filter (fun f => keep f.id) := by
  have h := restrict_is_filter_partial pc fileName t keep hs inp
  have e1 : ∀ es : List Event, findingsOf (es.filter hasId) = findingsOf es := by
    intro es; induction es with
    | nil => rfl
    | cons e es ih => cases e <;> simp_all [findingsOf, hasId, eventId, List.filter_cons, List.filterMap_cons]
  have e2 : ∀ es : List Event, findingsOf (es.filter (keepEvent keep)) = (findingsOf es).filter (fun f => keep f.id) := by
    intro es; induction es with
    | nil => rfl
    | cons e es ih =>
      cases e with
      | finding f =>
        by_cases hk : keep f.id = true <;>
          simp_all [findingsOf, keepEvent, eventId, List.filter_cons, List.filterMap_cons]
      | nosec f => by_cases hk : keep f.id = true <;> simp_all [findingsOf, keepEvent, eventId, List.filter_cons, List.filterMap_cons]
      | skipped f => by_cases hk : keep f.id = true <;> simp_all [findingsOf, keepEvent, eventId, List.filter_cons, List.filterMap_cons]
      | crash n => simp_all [findingsOf, keepEvent, eventId, List.filter_cons, List.filterMap_cons]
  rw [← e1, h, e2]

/-- **Enabling more checks never hides a finding** (same guard, for both selections) -/
theorem monotone (pc : PluginCfg) (fileName : Str) (t : BlTables) (keep keep' : Str → Bool)
    (hs : SelHyp t keep) (hs' : SelHyp t keep') (hsub : ∀ i, keep i = true → keep' i = true)
    (inp : FileInput) (f : Finding)
    (hf : f ∈ findingsOf (scanFile (testSet pc fileName t keep) inp)) :
    f ∈ findingsOf (scanFile (testSet pc fileName t keep') inp) := by
  rw [restricted_findings pc fileName t keep hs] at hf
  rw [restricted_findings pc fileName t keep' hs']
  obtain ⟨h1, h2⟩ := List.mem_filter.mp hf
  exact List.mem_filter.mpr ⟨h1, hsub _ h2⟩

/-- **Counter-example to the unguarded statement** (known finding): `import pickle, subprocess`
— the unrestricted blacklist reports only B403 (first match wins), selecting B404 alone adds B404. -/
theorem NEG_blacklist_first_match :
    let names := ["pickle".toList, "subprocess".toList]
    (firstImportRule Gen.rulesImport names).map (·.id) = some "B403".toList ∧
    (firstImportRule (Gen.rulesImport.filter (fun r => r.id == "B404".toList)) names).map (·.id) = some "B404".toList := by
  decide +kernel

/-! ### `_get_filter` -/

/-- `B001` alone selects every blacklist ID -/
theorem b001_alone_is_all_blacklist (u : IdUniverse) (i : Str) (hi : i ∈ u.blacklist) (hne : i ≠ b001)
    (hb : b001 ∉ u.blacklist) :
    i ∈ getFilter u { incl := [b001] } := by
  have hex : ∃ x, x ∈ u.blacklist ∧ ¬ x = b001 := ⟨i, hi, hne⟩
  simp [getFilter, expandB001, hb, List.mem_filter, hi, hne, hex]

/-- `B001` together with a specific blacklist ID selects only the specific ones -/
theorem b001_with_specific (u : IdUniverse) (i j : Str) (hi : i ∈ u.blacklist) (hj : j ≠ i) (hjb : j ≠ b001)
    (hib : i ≠ b001) : j ∉ getFilter u { incl := [b001, i] } := by
  have hc : u.blacklist.contains i = true := by simpa using hi
  have hib' : (i != b001) = true := by simpa using hib
  have hany : ([b001, i].any fun x => u.blacklist.contains x) = true := by simp [hi]
  have hcont : [b001, i].contains b001 = true := by simp
  unfold getFilter expandB001
  simp only [hany, hcont, if_true]
  have hf : ([b001, i].filter (· != b001)) = [i] := by simp [List.filter_cons, hib']
  simp [hf, hj]

/-- an excluded ID never runs -/
theorem excluded_never_runs (u : IdUniverse) (p : Profile) (i : Str) (hi : i ∈ p.excl) (hb : b001 ∉ p.excl) :
    i ∉ getFilter u p := by
  have hc : p.excl.contains b001 = false := by simpa using hb
  have : expandB001 u p.excl = p.excl := by simp [expandB001, hb]
  unfold getFilter
  simp only [this]
  intro hmem
  have := (List.mem_filter.mp hmem).2
  simp [hi] at this

/-- **the selection is exactly "included and not excluded"** when tests are named with `-t` (no `B001` shorthand on either side): a test runs
iff it is in the include list and not in the exclude list — nothing else runs and nothing named is dropped -/
theorem selection_with_includes (u : IdUniverse) (p : Profile) (i : Str) (hne : p.incl ≠ [])
    (hbi : b001 ∉ p.incl) (hbe : b001 ∉ p.excl) :
    i ∈ getFilter u p ↔ i ∈ p.incl ∧ i ∉ p.excl := by
  have e1 : expandB001 u p.incl = p.incl := by simp [expandB001, hbi]
  have e2 : expandB001 u p.excl = p.excl := by simp [expandB001, hbe]
  have hemp : p.incl.isEmpty = false := by cases h : p.incl <;> simp_all
  simp [getFilter, e1, e2, hemp, List.mem_filter]

/-- **without `-t` every known test runs except the excluded ones** -/
theorem selection_default (u : IdUniverse) (p : Profile) (i : Str) (hincl : p.incl = []) (hbe : b001 ∉ p.excl) :
    i ∈ getFilter u p ↔ (i ∈ u.plugins ∨ i ∈ u.builtin ∨ i ∈ u.blacklist) ∧ i ∉ p.excl := by
  have e2 : expandB001 u p.excl = p.excl := by simp [expandB001, hbe]
  have e1 : expandB001 u ([] : List Str) = [] := by simp [expandB001]
  simp only [getFilter, hincl, e1, e2, List.mem_filter, List.isEmpty_nil, Bool.not_true, Bool.false_eq_true, if_false, List.mem_append,
    Bool.not_eq_true', List.contains_eq_mem, decide_eq_false_iff_not, or_assoc]

/-- **skipping more never runs more**: enlarging the exclude list (same include list) can only remove tests from the selection -/
theorem skip_antitone (u : IdUniverse) (p p' : Profile) (i : Str) (hi : p'.incl = p.incl)
    (hsub : ∀ x ∈ p.excl, x ∈ p'.excl) (hbe : b001 ∉ p.excl) (hbe' : b001 ∉ p'.excl)
    (h : i ∈ getFilter u p') : i ∈ getFilter u p := by
  have e2 : expandB001 u p.excl = p.excl := by simp [expandB001, hbe]
  have e2' : expandB001 u p'.excl = p'.excl := by simp [expandB001, hbe']
  simp only [getFilter, e2, e2', hi, List.mem_filter] at h ⊢
  refine ⟨h.1, ?_⟩
  have h2 := h.2
  simp only [Bool.not_eq_true', List.contains_eq_mem, decide_eq_false_iff_not] at h2 ⊢
  exact fun hx => h2 (hsub _ hx)

/-- the empty profile runs the whole universe -/
theorem empty_profile_runs_all (u : IdUniverse) : getFilter u {} = u.plugins ++ u.builtin ++ u.blacklist := by
  simp only [getFilter, expandB001]
  have ft : ∀ l : List Str, l.filter (fun _ => true) = l := fun l => List.filter_eq_self.mpr (fun _ _ => rfl)
  simp [ft]

example : getFilter ⟨["B101".toList, "B102".toList], [], ["B301".toList]⟩ { incl := ["B101".toList, "B301".toList], excl := ["B301".toList] } = ["B101".toList] := by decide

/-- an ID that is both included and excluded is rejected -/
theorem contradiction_rejected (p : Profile) (i : Str) (h1 : i ∈ p.incl) (h2 : i ∈ p.excl) :
    profileRejected p = true := by
  simp only [profileRejected, List.any_eq_true]
  exact ⟨i, h1, by simpa using h2⟩

/-! ### instances over the generated tables -/

/-- the generated tables satisfy the table-side hypotheses of `SelHyp` -/
theorem gen_tables_selhyp :
    (Gen.blTables.map (·.1)).Nodup ∧
    (∀ kind ∈ ["Call".toList, "Import".toList, "ImportFrom".toList], ∀ r ∈ Gen.blTables.rulesFor kind, r.id ≠ []) ∧
    Gen.blTables.rulesFor "Import".toList = Gen.blTables.rulesFor "ImportFrom".toList ∧
    (∀ kv ∈ Gen.blTables, kv.2 ≠ []) := by
  decide +kernel

/-- in the generated Call table no qualified name belongs to two rules with different IDs:
for calls the no-masking guard holds for every selection -/
theorem gen_call_rules_unambiguous :
    ∀ r1 ∈ Gen.rulesCall, ∀ r2 ∈ Gen.rulesCall, ∀ q ∈ r1.qualnames, q ∈ r2.qualnames → r1.id = r2.id := by
  decide +kernel

end Props.C05
