import Bandit.Proofs.Total
import Bandit.Proofs.Total2
import Bandit.Proofs.Nosec
import Props.C14
import Bandit.Fast
/-!
# C06 — No built-in check crashes on valid Python

`M = Except Crash`: a check "raises" iff its model returns `.error`.  The theorems below say the
modelled checks return `.ok` on **every** node shape (after the /repo fixes c28be0a, 24ed4b7, 94606d1).
The model's knowledge of which Python operations raise is hand-written; the crash monitor of
`harness/props/c06.py` closes that gap empirically on every run.

Layout: evaluators; one `bNNN_total` per plugin decision function, each under the CPython shape facts
and the settings facts it needs and nothing more; `checks_return_visit` / `checks_return_file` (every
check of the test set returns in the environment `runVisit` / `scanFile` builds); the headline
`scan_no_crash`; non-vacuity examples.  `TreeShapeOK`, `configOK`, `keyTablesOK` and the helper lemmas
live in `Bandit/Proofs/Total2.lean`.
-/
namespace Props.C06
open Bandit Bandit.Plugins

/-- **Argument evaluation never raises**: `_get_literal_value`, `call_args`, `call_keywords`,
`get_call_arg_at_position`, `get_call_arg_value`, `check_call_arg_value` are total on every node —
lists, tuples, sets with unhashable elements, dicts with `**`, starred, lambdas, anything. -/
theorem evaluators_total (n : Node) (c : CallView) (name : String) (i : Nat) (vals : List PyVal) :
    (∃ v, literalValue n = .ok v) ∧ (∃ as, c.callArgs = .ok as) ∧ (∃ k, c.callKeywords = .ok k) ∧
    (∃ v, c.argAt i = .ok v) ∧ (∃ v, c.argValue name = .ok v) ∧ (∃ b, c.checkArg name vals = .ok b) :=
  ⟨literalValue_total n, callArgs_total c, callKeywords_total c, argAt_total c i, argValue_total c name,
   checkArg_total c name vals⟩

/-- a check whose decision function returns `.ok` on a positioned node produces no internal-error
event (the tester's own defaults cannot fail there) -/
theorem no_crash_event (nm : NosecMap) (env : Env) (c : Check) (l col : Nat)
    (hrun : ∃ r, c.run (env.forCheck c) = .ok r)
    (hl : env.ctx.lineno = some l) (hc : env.ctx.col = some col) :
    ∀ ev ∈ runCheck nm env c, ∀ t, ev ≠ .crash t := by
  obtain ⟨r, hr⟩ := hrun
  intro ev hev t
  unfold runCheck at hev
  rw [hr] at hev
  cases r with
  | none => simp at hev
  | some pr =>
    simp only [] at hev
    rw [emit_eq] at hev
    have hloc : ∃ lc, resolveLoc (fillId c (pr.resolve env.v)) env.ctx = some lc := by
      unfold resolveLoc
      rw [hl, hc]
      cases (fillId c (pr.resolve env.v)).lineno <;> cases (fillId c (pr.resolve env.v)).col <;>
        simp [HOrElse.hOrElse, OrElse.orElse, Option.orElse]
    obtain ⟨lc, hlc⟩ := hloc
    obtain ⟨l', c'⟩ := lc
    simp only [hlc] at hev
    cases hn : nosecsFor nm (fillId c (pr.resolve env.v)) env.ctx with
    | none => simp only [hn, List.mem_singleton] at hev; subst hev; intro h; cases h
    | some s =>
      cases s with
      | nil => simp only [hn, List.mem_singleton] at hev; subst hev; intro h; cases h
      | cons a as =>
        simp only [hn] at hev
        by_cases hcn : (a :: as).contains (fillId c (pr.resolve env.v)).id = true
        · simp only [hcn, if_true, List.mem_singleton] at hev; subst hev; intro h; cases h
        · simp only [hcn, Bool.false_eq_true, if_false, List.mem_singleton] at hev; subst hev; intro h; cases h

/-! ## The process-spawning checks -/

/-- with a well-formed `shell_injection` configuration (the three lists present), B602–B607 return
on every call node — the closed forms of `Props.C14` exist for all evaluated arguments, and
evaluation is total -/
theorem shell_checks_total (cfg : ShellCfg) (e : Env) (c : CallView)
    (h1 : cfg.truthy = true) (h2 : cfg.hasSubprocess = true) (h3 : cfg.hasShell = true) (h4 : cfg.hasNoShell = true)
    (hc : e.call? = some c) :
    (∃ r, b602 cfg e = .ok r) ∧ (∃ r, b603 cfg e = .ok r) ∧ (∃ r, b604 cfg e = .ok r) ∧
    (∃ r, b605 cfg e = .ok r) ∧ (∃ r, b606 cfg e = .ok r) := by
  obtain ⟨kws, hk⟩ := callKeywords_total c
  obtain ⟨as, ha⟩ := callArgs_total c
  have ok : Props.C14.Ok cfg e c kws as := ⟨h1, h2, h3, h4, hc, hk, ha⟩
  exact ⟨⟨_, Props.C14.b602_table cfg e c kws as ok⟩, ⟨_, Props.C14.b603_table cfg e c kws as ok⟩,
    ⟨_, Props.C14.b604_table cfg e c kws as ok⟩, ⟨_, Props.C14.b605_table cfg e c kws as ok⟩,
    ⟨_, Props.C14.b606_table cfg e c kws as ok⟩⟩

/-! ## The blacklist -/

/-- the blacklist check returns on every node: `__import__()` without arguments,
`importlib.import_module()` without a name, non-literal and wrongly typed arguments included -/
theorem blacklist_total (t : BlTables) (e : Env)
    (hwf : e.node.isKind "Call" = true → ∃ c, e.node.asCall? = some c) :      -- CPython: a Call has a `func`
    ∃ r, blacklistRun t e = .ok r := by
  by_cases hk : e.node.isKind "Call" = true
  · obtain ⟨c, hc⟩ := hwf hk
    have hname : ∃ nm, blacklistCallName e c = .ok nm := by
      by_cases h1 : (c.func.nameId? == some "__import__".toList) = true
      · simp only [blacklistCallName, h1, if_true]
        cases c.args <;> exact ⟨_, rfl⟩
      · by_cases h2 : (e.qual == "importlib.import_module".toList || e.qual == "importlib.__import__".toList) = true
        · by_cases h3 : c.args.length > 0
          · obtain ⟨as, ha⟩ := callArgs_total c
            simp only [blacklistCallName, h1, h2, h3, if_true, Bool.false_eq_true, if_false, ha, bind, Except.bind]
            cases as with
            | nil =>
              have := Props.C14.args_len.List.length_mapM_except (f := attrOrLiteral) (l := c.args) (r := []) ha
              simp at this
              simp [this] at h3
            | cons v vs => exact ⟨_, rfl⟩
          · obtain ⟨kws, hkw⟩ := callKeywords_total c
            simp only [blacklistCallName, h1, h2, h3, if_true, Bool.false_eq_true, if_false, hkw, bind, Except.bind]
            cases CallView.lookupKw kws "name" <;> exact ⟨_, rfl⟩
        · simp only [blacklistCallName, h1, h2, Bool.false_eq_true, if_false]
          exact ⟨_, rfl⟩
    obtain ⟨nm, hnm⟩ := hname
    simp only [blacklistRun, hk, if_true, hc, hnm, bind, Except.bind]
    split <;> exact ⟨_, rfl⟩
  · simp only [blacklistRun, hk, Bool.false_eq_true, if_false]
    split
    · split <;> exact ⟨_, rfl⟩
    · exact ⟨_, rfl⟩

/-! ## Small checks -/

theorem b106_go_total : ∀ l : List Node, ∃ r, b106.go l = .ok r
  | [] => ⟨_, rfl⟩
  | k :: ks => by
    obtain ⟨r, hr⟩ := b106_go_total ks
    simp only [b106.go]
    split
    · split
      · exact ⟨r, hr⟩
      · split
        · exact ⟨_, rfl⟩
        · exact ⟨r, hr⟩
    · exact ⟨r, hr⟩

/-- B106 returns on every call, `f(**"x")` included (repaired by /repo c28be0a) -/
theorem b106_total (e : Env) (c : CallView) (hc : e.call? = some c) : ∃ r, b106 e = .ok r := by
  unfold b106
  simp only [hc]
  exact b106_go_total c.keywords

/-- B102, B104, B601, B702 are plain tests of the resolved name / literal -/
theorem simple_checks_total (e : Env) :
    (∃ r, b102 e = .ok r) ∧ (∃ r, b104 e = .ok r) ∧ (∃ r, b601 e = .ok r) ∧ (∃ r, b702 e = .ok r) := by
  refine ⟨?_, ?_, ?_, ?_⟩
  · unfold b102; split <;> exact ⟨_, rfl⟩
  · unfold b104; split <;> exact ⟨_, rfl⟩
  · unfold b601; split <;> exact ⟨_, rfl⟩
  · simp only [b702]; split <;> exact ⟨_, rfl⟩

/-- B103 (chmod) returns whatever the two arguments are -/
theorem b103_total (e : Env) (c : CallView) (hc : e.call? = some c) : ∃ r, b103 e = .ok r := by
  unfold b103
  simp only [hc]
  split
  · split
    · obtain ⟨m, hm⟩ := argAt_total c 1
      obtain ⟨f, hf⟩ := argAt_total c 0
      simp only [hm, hf, bind, Except.bind, pure, Except.pure]
      split
      · split <;> exact ⟨_, rfl⟩
      · exact ⟨_, rfl⟩
    · exact ⟨_, rfl⟩
  · exact ⟨_, rfl⟩

/-- B201 / B612: keyword inspection is total -/
theorem kw_checks_total (e : Env) (c : CallView) (hc : e.call? = some c) :
    (∃ r, b201 e = .ok r) ∧ (∃ r, b612 e = .ok r) := by
  constructor
  · unfold b201
    simp only [hc]
    obtain ⟨b, hb⟩ := checkArg_total c "debug" [.str "True".toList]
    simp only [hb, bind, Except.bind, pure, Except.pure]
    split
    · split
      · split <;> exact ⟨_, rfl⟩
      · exact ⟨_, rfl⟩
    · exact ⟨_, rfl⟩
  · unfold b612
    simp only [hc]
    obtain ⟨b, hb⟩ := hasKw_total c "verify"
    simp only [hb, bind, Except.bind, pure, Except.pure]
    split
    · split <;> exact ⟨_, rfl⟩
    · exact ⟨_, rfl⟩

/-- every visited node has a parent (the module at least): `node._bandit_parent` never fails -/
theorem visited_has_parent (root : Node) : ∀ v ∈ visits root, v.anc ≠ [] := by
  have key : ∀ (n : Node) (anc : List Node), ∀ v ∈ visitsBelow anc n, v.anc ≠ [] := by
    intro n
    refine Node.rec
      (motive_1 := fun n => ∀ anc, ∀ v ∈ visitsBelow anc n, v.anc ≠ [])
      (motive_2 := fun ks => ∀ anc, anc ≠ [] → ∀ v ∈ visitsSlots anc ks, v.anc ≠ [])
      (motive_3 := fun s => ∀ anc, anc ≠ [] → ∀ v ∈ visitsList anc s.2.1 s.2.2, v.anc ≠ [])
      (motive_4 := fun s => ∀ anc, anc ≠ [] → ∀ v ∈ visitsList anc s.1 s.2, v.anc ≠ [])
      (motive_5 := fun ns => ∀ anc l, anc ≠ [] → ∀ v ∈ visitsList anc l ns, v.anc ≠ [])
      ?_ ?_ ?_ ?_ ?_ ?_ ?_ n
    · intro k p a ks ih anc v hv
      simp only [visitsBelow] at hv
      exact ih _ (by simp) v hv
    · intro anc _ v hv; simp [visitsSlots] at hv
    · intro head tail ih1 ih2 anc ha v hv
      obtain ⟨f, l, ns⟩ := head
      simp only [visitsSlots, List.mem_append] at hv
      rcases hv with h | h
      · exact ih1 anc ha v h
      · exact ih2 anc ha v h
    · intro f snd ih anc ha v hv; exact ih anc ha v hv
    · intro l ns ih anc ha v hv; exact ih anc l ha v hv
    · intro anc l _ v hv; simp [visitsList] at hv
    · intro head tail ih1 ih2 anc l ha v hv
      simp only [visitsList, List.mem_append] at hv
      rcases hv with h | h
      · split at h
        · simp at h
        · simp only [List.mem_cons] at h
          rcases h with rfl | h
          · exact ha
          · exact ih1 anc v h
      · exact ih2 anc l ha v h
  intro v hv
  exact key root [] v hv

/-! ## Per-check totality: the remaining plugins

Each theorem assumes exactly what the situation provides: the node is of the kind the check is
registered for and has the fields CPython gives that kind (`e.call? = some c`: a `Call` with its
`func`; `kid? "args" = some _`: a `FunctionDef` with its `arguments`; a string constant with a
parent), and the plugin's settings have the keys its `gen_config` emits. -/

set_option linter.unusedSimpArgs false

/-! ### `Plugins/Misc.lean` -/

/-- B101: the settings are a mapping (`config.get("skips", [])`) -/
theorem b101_total (kvs : List (Str × CfgVal)) (fileName : Str) (e : Env) :
    ∃ r, b101 (.map kvs) fileName e = .ok r := by
  unfold b101
  simp only []
  split <;> exact ⟨_, rfl⟩

/-- B110: the settings carry `check_typed_exception` (nothing is asked of the handler node: a missing `body` reads as empty) -/
theorem b110_total (cfg : CfgVal) (e : Env) (hcfg : (cfg.get? "check_typed_exception").isSome = true) :
    ∃ r, b110 cfg e = .ok r := exceptHandler_total _ _ cfg e hcfg

/-- B112: as B110 -/
theorem b112_total (cfg : CfgVal) (e : Env) (hcfg : (cfg.get? "check_typed_exception").isSome = true) :
    ∃ r, b112 cfg e = .ok r := exceptHandler_total _ _ cfg e hcfg

/-- B107: a `FunctionDef` has its `arguments` node -/
theorem b107_total (e : Env) (args : Node) (ha : e.node.kid? "args" = some args) : ∃ r, b107 e = .ok r := by
  unfold b107
  simp only [ha]
  exact b107_go_total _

/-- B108: the node is a string constant (the check is registered for `Str`); any settings, a missing `tmp_dirs` falls back to the defaults -/
theorem b108_total (cfg : CfgVal) (e : Env) (s : Str) (hs : e.node.strConst? = some s) :
    ∃ r, b108 cfg e = .ok r := by
  unfold b108
  simp only [hs]
  ok_split

/-- B105: the node is a string constant with a parent; a `Subscript` parent has a parent of its own (it is an
expression, not the module), a `Compare` parent has `left` and at least one comparator (CPython's parser
never builds a `Compare` without one) -/
theorem b105_total (e : Env) (s : Str) (par : Node)
    (hs : e.node.strConst? = some s) (hp : e.v.parent? = some par)
    (hsub : par.isKind "Subscript" = true → e.v.grandparent?.isSome = true)
    (hcmp : par.isKind "Compare" = true →
      (par.kid? "left").isSome = true ∧ (par.kidList "comparators").head?.isSome = true) :
    ∃ r, b105 e = .ok r := by
  unfold b105
  simp only [hs, hp, bind, Except.bind, pure, Except.pure]
  by_cases h1 : par.isKind "Assign" = true
  · simp only [h1, if_true]; ok_split
  · simp only [h1, Bool.false_eq_true, if_false]
    by_cases h2 : (par.isKind "Subscript" && isCandidate s) = true
    · simp only [h2, if_true]
      have h2' : par.isKind "Subscript" = true := by
        simp only [Bool.and_eq_true] at h2; exact h2.1
      obtain ⟨g, hg⟩ := Option.isSome_iff_exists.mp (hsub h2')
      simp only [hg]
      ok_split
    · simp only [h2, Bool.false_eq_true, if_false]
      by_cases h3 : par.isKind "Compare" = true
      · obtain ⟨hl, hc⟩ := hcmp h3
        obtain ⟨l, hl⟩ := Option.isSome_iff_exists.mp hl
        obtain ⟨c0, hc⟩ := Option.isSome_iff_exists.mp hc
        simp only [h3, if_true, hl, hc]
        ok_split
      · simp only [h3, Bool.false_eq_true, if_false]
        exact ⟨_, rfl⟩

/-! ### `Plugins/Crypto.lean` -/

/-- B113: a call -/
theorem b113_total (T : CryptoTables) (e : Env) (c : CallView) (hc : e.call? = some c) : ∃ r, b113 T e = .ok r := by
  obtain ⟨b1, h1⟩ := checkArg_total c "timeout" [.none]
  obtain ⟨b2, h2⟩ := checkArg_total c "timeout" [.str "None".toList]
  unfold b113
  simp only [hc, h1, h2, bind, Except.bind, pure, Except.pure]
  ok_split

/-- B324: a call -/
theorem b324_total (T : CryptoTables) (e : Env) (c : CallView) (hc : e.call? = some c) : ∃ r, b324 T e = .ok r := by
  obtain ⟨as, ha⟩ := callArgs_total c
  obtain ⟨kws, hk⟩ := callKeywords_total c
  unfold b324
  simp only [hc, bind, Except.bind, pure, Except.pure, b324Hashlib_ok T c as kws _ ha hk, b324Crypt_ok T c as kws _ ha hk]
  ok_split

/-- B501: a call -/
theorem b501_total (T : CryptoTables) (e : Env) (c : CallView) (hc : e.call? = some c) : ∃ r, b501 T e = .ok r := by
  obtain ⟨b1, h1⟩ := checkArg_total c "verify" [.str "False".toList]
  unfold b501
  simp only [hc, h1, bind, Except.bind, pure, Except.pure]
  ok_split

/-- B502: a call; the settings are a mapping with `bad_protocol_versions` (any value: a non-list is wrapped) -/
theorem b502_total (cfg : CfgVal) (e : Env) (c : CallView) (bad : CfgVal) (hc : e.call? = some c)
    (hcfg : cfgIndex cfg "bad_protocol_versions" = .ok bad) : ∃ r, b502 cfg e = .ok r := by
  obtain ⟨b1, h1⟩ := checkArgCfg_total c "ssl_version" bad
  obtain ⟨b2, h2⟩ := checkArgCfg_total c "method" bad
  unfold b502
  simp only [hc, hcfg, h1, h2, bind, Except.bind, pure, Except.pure]
  ok_split

/-- B503 (run on `FunctionDef`): the settings are a mapping whose `bad_protocol_versions` is a container
(`x in 5` would raise `TypeError`); a function without `args` has no defaults -/
theorem b503_total (cfg : CfgVal) (e : Env) (bad : CfgVal)
    (hcfg : cfgIndex cfg "bad_protocol_versions" = .ok bad) (hb : CfgVal.isContainer bad = true) :
    ∃ r, b503 cfg e = .ok r := by
  unfold b503
  simp only [hcfg, bind, Except.bind]
  exact b503_go_total e bad hb _

/-- B504: a call -/
theorem b504_total (e : Env) (c : CallView) (hc : e.call? = some c) : ∃ r, b504 e = .ok r := by
  obtain ⟨b1, h1⟩ := checkArg_total c "ssl_version" [.none]
  unfold b504
  simp only [hc, h1, bind, Except.bind, pure, Except.pure]
  ok_split

/-- B507: a call -/
theorem b507_total (e : Env) (c : CallView) (hc : e.call? = some c) : ∃ r, b507 e = .ok r := by
  unfold b507
  simp only [hc, bind, Except.bind, pure, Except.pure]
  ok_split

/-- B508: a call -/
theorem b508_total (e : Env) (c : CallView) (hc : e.call? = some c) : ∃ r, b508 e = .ok r := by
  obtain ⟨b1, h1⟩ := checkArg_total c "mpModel" [.int 0]
  obtain ⟨b2, h2⟩ := checkArg_total c "mpModel" [.int 1]
  unfold b508
  simp only [hc, h1, h2, bind, Except.bind, pure, Except.pure]
  ok_split

/-- B509: a call -/
theorem b509_total (e : Env) (c : CallView) (hc : e.call? = some c) : ∃ r, b509 e = .ok r := by
  unfold b509
  simp only [hc, bind, Except.bind, pure, Except.pure]
  ok_split

/-- B505: a call; the six thresholds are configured integers; the in-module key tables are closed
(`keyTablesOK`, true of the tables regenerated from /repo: `gen_keyTablesOK`) -/
theorem b505_total (T : CryptoTables) (cfg : CfgVal) (t : Spec.Crypto.Thresholds) (e : Env) (c : CallView)
    (hc : e.call? = some c) (hT : keyTablesOK T = true) (ht : HasThresholds cfg t) : ∃ r, Plugins.b505 T cfg e = .ok r := by
  obtain ⟨r1, h1⟩ := b505Cio_total T cfg t e c hT ht
  obtain ⟨r2, h2⟩ := b505Pyc_total T cfg t e c hT ht
  unfold Plugins.b505
  simp only [hc, h1, h2, bind, Except.bind, pure, Except.pure]
  ok_split

/-- the key tables extracted from /repo are closed -/
theorem gen_keyTablesOK : keyTablesOK genCryptoTables = true := by decide +kernel

/-! ### `Plugins/Shell.lean`, `Plugins/Inject.lean`, `Plugins/Trojan.lean` -/

/-- B607: a call; the three lists of `shell_injection` are configured -/
theorem b607_total (cfg : ShellCfg) (e : Env) (c : CallView)
    (h2 : cfg.hasSubprocess = true) (h3 : cfg.hasShell = true) (h4 : cfg.hasNoShell = true)
    (hc : e.call? = some c) : ∃ r, b607 cfg e = .ok r := by
  obtain ⟨as, ha⟩ := callArgs_total c
  have hl : as.length = c.args.length := Props.C14.args_len.List.length_mapM_except (f := attrOrLiteral) ha
  unfold b607
  simp only [hc, h2, h3, h4, ha, hl, bind, Except.bind, pure, Except.pure, Bool.not_true, Bool.and_false,
    Bool.false_eq_true, if_false]
  cases hargs : c.args with
  | nil => simp only [List.length_nil, Nat.lt_irrefl, gt_iff_lt, if_false]; ok_split
  | cons a rest => simp only []; ok_split

/-- B609: a call (missing lists make the check return early) -/
theorem b609_total (cfg : ShellCfg) (e : Env) (c : CallView) (hc : e.call? = some c) : ∃ r, b609 cfg e = .ok r := by
  obtain ⟨b1, h1⟩ := checkArg_total c "shell" [.str "True".toList]
  obtain ⟨a0, h0⟩ := argAt_total c 0
  unfold b609
  simp only [hc, h1, h0, bind, Except.bind, pure, Except.pure]
  ok_split

/-- B610: a call -/
theorem b610_total (T : InjTables) (e : Env) (c : CallView) (hc : e.call? = some c) : ∃ r, b610 T e = .ok r := by
  unfold b610
  simp only [hc, bind, Except.bind, pure, Except.pure]
  ok_split

/-- B611: a call (`RawSQL()` without arguments included) -/
theorem b611_total (e : Env) (c : CallView) (hc : e.call? = some c) : ∃ r, b611 e = .ok r := by
  unfold b611
  simp only [hc, bind, Except.bind, pure, Except.pure]
  ok_split

/-- B701: any node -/
theorem b701_total (e : Env) : ∃ r, b701 e = .ok r := by
  unfold b701
  ok_split

/-- B704: a call; the settings are a mapping whose `extend_markup_names` / `allowed_calls`, when present, are containers -/
theorem b704_total (T : InjTables) (kvs : List (Str × CfgVal)) (e : Env) (c : CallView) (hc : e.call? = some c)
    (h1 : memberOK ((CfgVal.map kvs).get? "extend_markup_names") = true)
    (h2 : memberOK ((CfgVal.map kvs).get? "allowed_calls") = true) :
    ∃ r, b704 T (.map kvs) e = .ok r := by
  obtain ⟨m1, hm1⟩ := cfgMember_total _ e.qual h1
  unfold b704
  simp only [hc, hm1, bind, Except.bind, pure, Except.pure, Bool.not_true, Bool.false_eq_true, if_false]
  cases hargs : c.args with
  | nil => simp only []; ok_split
  | cons a rest =>
    simp only []
    cases hcall : a.asCall? with
    | none => simp only []; ok_split
    | some c' =>
      obtain ⟨m2, hm2⟩ := cfgMember_total _ (callName e.st.aliases c') h2
      simp only [hm2]
      ok_split

/-- B506: a call -/
theorem b506_total (e : Env) (c : CallView) (hc : e.call? = some c) : ∃ r, b506 e = .ok r := by
  obtain ⟨b1, h1⟩ := checkArg_total c "Loader" [.str "SafeLoader".toList]
  obtain ⟨b2, h2⟩ := checkArg_total c "Loader" [.str "CSafeLoader".toList]
  obtain ⟨p1, hp⟩ := argAt_total c 1
  unfold b506
  simp only [hc, h1, h2, hp, bind, Except.bind, pure, Except.pure]
  ok_split

/-- B614: a call -/
theorem b614_total (e : Env) (c : CallView) (hc : e.call? = some c) : ∃ r, b614 e = .ok r := by
  obtain ⟨w, hw⟩ := argValue_total c "weights_only"
  unfold b614
  simp only [hc, hw, bind, Except.bind, pure, Except.pure]
  ok_split

/-- B202: a call (`members` is only classified when it is a keyword) -/
theorem b202_total (e : Env) (c : CallView) (hc : e.call? = some c) : ∃ r, b202 e = .ok r := by
  obtain ⟨kws, hk⟩ := callKeywords_total c
  have hf : c.hasKw "filter" = .ok (CallView.lookupKw kws "filter").isSome := by
    simp [CallView.hasKw, hk, bind, Except.bind, pure, Except.pure]
  have hm : c.hasKw "members" = .ok (CallView.lookupKw kws "members").isSome := by
    simp [CallView.hasKw, hk, bind, Except.bind, pure, Except.pure]
  have hmem : (CallView.lookupKw kws "members").isSome = true → ∃ b, membersIsFunction c = .ok b := by
    intro h
    have h' := kw_isSome hk "members"
    simp only [Spec.Crypto.kw] at h'
    rw [h'] at h
    obtain ⟨k, hkf⟩ := Option.isSome_iff_exists.mp (List.find?_isSome.mpr (List.any_eq_true.mp h))
    unfold membersIsFunction
    simp only [hkf]
    ok_split
  unfold b202
  simp only [hc, hf, hm, bind, Except.bind, pure, Except.pure]
  split
  · split
    · exact ⟨_, rfl⟩
    · split
      · rename_i hmm
        obtain ⟨b, hb⟩ := hmem hmm
        simp only [hb]
        ok_split
      · exact ⟨_, rfl⟩
  · exact ⟨_, rfl⟩

/-- B613 (file level): any text -/
theorem b613_total (table : List Char) (e : Env) : ∃ r, b613 table e = .ok r := by
  unfold b613
  ok_split

/-- B608 (run on `Str`): a string constant with a parent; below an `Attribute` parent (`"…".format`) there
are two more ancestors, below a `JoinedStr` parent one more — expressions are never children of the module -/
theorem b608_total (T : InjTables) (e : Env) (s : Str) (par : Node)
    (hs : e.node.strConst? = some s) (hp : e.v.parent? = some par)
    (hattr : par.isKind "Attribute" = true → (e.v.anc[2]?).isSome = true)
    (hjoin : par.isKind "JoinedStr" = true → (e.v.anc[1]?).isSome = true) :
    ∃ r, b608 T e = .ok r := by
  obtain ⟨r, hr⟩ := evaluateAst_total T e s par hs hp hattr hjoin
  unfold b608
  simp only [hr, bind, Except.bind, pure, Except.pure]
  ok_split

/-! ### `Plugins/DjangoXss.lean` -/

/-- **B703 returns, with the budget the model gives it** (`fuelFor`: size of the enclosing scope plus
its largest line number): no Python exception and no `RecursionError`.  Hypotheses: the node is a
call; the enclosing `Module`/`FunctionDef` exists and its statements carry line numbers; `Call` and
`BinOp` nodes at and below the call are positioned, on lines `≤ B`, and `B` is below the budget
(`Bandit.b703_facts` derives all of this for every visited call of a `TreeShapeOK` tree). -/
theorem b703_total (T : InjTables) (e : Env) (c : CallView) (B : Nat) (p : Node)
    (hc : e.call? = some c) (hp : DjangoXss.enclosing e.v.anc = some p)
    (hb : ∀ s ∈ p.kidList "body", s.line?.isSome = true)
    (hd : e.node.deepAll (DjangoXss.exprP B) = true) (hB : B < DjangoXss.fuelFor e.v.anc) :
    ∃ r, DjangoXss.b703 T e = .ok r :=
  DjangoXss.b703With_total T _ e c B p hc hp hb hd hB

/-- **B703 with an arbitrary recursion budget**: under the same shape facts the only failure left is the
budget running out (`Crash.other`, the model's stand-in for `RecursionError`) — no `AttributeError`,
`IndexError`, … from `check_risk`, `evaluate_var`, `evaluate_call`, `transform2call`, `is_assigned`.
(`b703_total` shows the model's own budget `fuelFor` is never exhausted.  CPython's real budget is the
interpreter's recursion limit, which the model does not know: a chain of about a thousand one-line
re-assignments `x1 = x0`, `x2 = x1`, … before `mark_safe(x999)` needs as many nested `evaluate_var`
activations, within `fuelFor` but beyond the default `sys.getrecursionlimit()`.) -/
theorem b703_only_recursion_error (T : InjTables) (fuel : Env → Nat) (e : Env) (c : CallView) (B : Nat) (p : Node)
    (hc : e.call? = some c) (hp : DjangoXss.enclosing e.v.anc = some p)
    (hb : ∀ s ∈ p.kidList "body", s.line?.isSome = true)
    (hd : e.node.deepAll (DjangoXss.exprP B) = true) :
    (∃ r, DjangoXss.b703With T fuel e = .ok r) ∨ DjangoXss.b703With T fuel e = .error .other :=
  DjangoXss.b703With_ok_or_recursion T fuel e c B p hc hp hb hd

/-! ## Every registered check returns on every visit of a well-shaped tree -/

section Groups
variable {env : Env} {kind : Str} (ef : EnvFacts env kind)
include ef

theorem misc_return (pc : PluginCfg) (fileName : Str) (hcfg : ConfigFacts pc) :
    ∀ c ∈ miscChecks pc fileName, c.kinds.contains kind = true → Returns c env := by
  intro c hc hk
  have pos : ∀ k : String, kind = k.toList → k.toList ∈ ["Call".toList, "Str".toList, "FunctionDef".toList,
      "ExceptHandler".toList, "Assert".toList, "File".toList] → env.ctx.lineno.isSome = true ∧ env.ctx.col.isSome = true :=
    fun k h hm => ef.posd (by rw [h]; exact hm)
  simp only [miscChecks, List.mem_cons, List.mem_nil_iff, or_false] at hc
  rcases hc with rfl | rfl | rfl | rfl | rfl | rfl | rfl | rfl | rfl | rfl | rfl | rfl | rfl | rfl <;>
    have hk' := kinds_single hk
  · obtain ⟨kvs, hm⟩ := hcfg.assertUsed
    rw [hm]
    exact plugin_returns (b101_total kvs fileName _) (pos "Assert" hk' (by simp))
  · exact plugin_returns (simple_checks_total _).1 (pos "Call" hk' (by simp))
  · obtain ⟨c, hc⟩ := ef.call hk'
    exact plugin_returns (b103_total _ _ (blind_call hc)) (pos "Call" hk' (by simp))
  · exact plugin_returns (simple_checks_total _).2.1 (pos "Str" hk' (by simp))
  · obtain ⟨⟨s, hs⟩, ⟨p, hp⟩, hsub, hcmp, _, _⟩ := (ef.str hk').erase
    exact plugin_returns (b105_total env.blind s p hs hp (hsub p hp) (hcmp p hp)) (pos "Str" hk' (by simp))
  · obtain ⟨c, hc⟩ := ef.call hk'
    exact plugin_returns (b106_total _ _ (blind_call hc)) (pos "Call" hk' (by simp))
  · obtain ⟨a, ha⟩ := ef.fn hk'
    refine plugin_returns (b107_total env.blind a.erase ?_) (pos "FunctionDef" hk' (by simp))
    show env.v.erase.node.kid? "args" = _
    simp only [Visit.erase, Node.kid?_erase, ha, Option.map_some]
  · obtain ⟨⟨s, hs⟩, _⟩ := (ef.str hk').erase
    exact plugin_returns (b108_total _ env.blind s hs) (pos "Str" hk' (by simp))
  · exact plugin_returns (b110_total _ _ hcfg.tryPass) (pos "ExceptHandler" hk' (by simp))
  · exact plugin_returns (b112_total _ _ hcfg.tryContinue) (pos "ExceptHandler" hk' (by simp))
  · obtain ⟨c, hc⟩ := ef.call hk'
    exact plugin_returns (kw_checks_total _ _ (blind_call hc)).1 (pos "Call" hk' (by simp))
  · exact plugin_returns (simple_checks_total _).2.2.1 (pos "Call" hk' (by simp))
  · obtain ⟨c, hc⟩ := ef.call hk'
    exact plugin_returns (kw_checks_total _ _ (blind_call hc)).2 (pos "Call" hk' (by simp))
  · exact plugin_returns (simple_checks_total _).2.2.2 (pos "Call" hk' (by simp))

theorem shell_return (pc : PluginCfg) (hcfg : ConfigFacts pc) :
    ∀ c ∈ shellChecks (ShellCfg.ofCfg (pc.get "shell_injection")), c.kinds.contains kind = true → Returns c env := by
  intro c hc hk
  simp only [shellChecks, List.mem_cons, List.mem_nil_iff, or_false] at hc
  have hk' : kind = "Call".toList := by
    rcases hc with rfl | rfl | rfl | rfl | rfl | rfl | rfl <;> exact kinds_single hk
  have pos := ef.posd (by rw [hk']; simp)
  obtain ⟨cv, hcv⟩ := ef.call hk'
  have hb := blind_call hcv
  obtain ⟨t2, t3, t4, t5, t6⟩ :=
    shell_checks_total _ env.blind _ hcfg.shTruthy hcfg.shSub hcfg.shShell hcfg.shNoShell hb
  rcases hc with rfl | rfl | rfl | rfl | rfl | rfl | rfl
  · exact plugin_returns t2 pos
  · exact plugin_returns t3 pos
  · exact plugin_returns t4 pos
  · exact plugin_returns t5 pos
  · exact plugin_returns t6 pos
  · exact plugin_returns (b607_total _ _ _ hcfg.shSub hcfg.shShell hcfg.shNoShell hb) pos
  · exact plugin_returns (b609_total _ _ _ hb) pos

theorem crypto_return (T : CryptoTables) (hT : keyTablesOK T = true) (pc : PluginCfg) (hcfg : ConfigFacts pc) :
    ∀ c ∈ cryptoChecks T pc, c.kinds.contains kind = true → Returns c env := by
  intro c hc hk
  simp only [cryptoChecks, List.mem_cons, List.mem_nil_iff, or_false] at hc
  obtain ⟨bad, hbad, hcont⟩ := hcfg.ssl
  obtain ⟨t, ht⟩ := hcfg.weakKey
  rcases hc with rfl | rfl | rfl | rfl | rfl | rfl | rfl | rfl | rfl | rfl <;> have hk' := kinds_single hk
  case inr.inr.inr.inr.inl =>
    exact plugin_returns (b503_total _ _ bad hbad hcont) (ef.posd (by rw [hk']; simp))
  all_goals
    have pos := ef.posd (by rw [hk']; simp)
    obtain ⟨cv, hcv⟩ := ef.call hk'
    have hb := blind_call hcv
  · exact plugin_returns (b113_total _ _ _ hb) pos
  · exact plugin_returns (b324_total _ _ _ hb) pos
  · exact plugin_returns (b501_total _ _ _ hb) pos
  · exact plugin_returns (b502_total _ _ _ bad hb hbad) pos
  · exact plugin_returns (b504_total _ _ hb) pos
  · exact plugin_returns (b505_total _ _ t _ _ hb hT ht) pos
  · exact plugin_returns (b507_total _ _ hb) pos
  · exact plugin_returns (b508_total _ _ hb) pos
  · exact plugin_returns (b509_total _ _ hb) pos

theorem trojan_return (table : List Char) :
    ∀ c ∈ trojanChecks table, c.kinds.contains kind = true → Returns c env := by
  intro c hc hk
  simp only [trojanChecks, List.mem_cons, List.mem_nil_iff, or_false] at hc
  subst hc
  have hk' := kinds_single hk
  exact plugin_returns (b613_total _ _) (ef.posd (by rw [hk']; simp))

theorem inject_return (T : InjTables) (pc : PluginCfg) (hcfg : ConfigFacts pc) :
    ∀ c ∈ injectChecksWith T pc, c.kinds.contains kind = true → Returns c env := by
  intro c hc hk
  simp only [injectChecksWith, List.mem_cons, List.mem_nil_iff, or_false] at hc
  obtain ⟨kvs, hm, hm1, hm2⟩ := hcfg.markup
  rcases hc with rfl | rfl | rfl | rfl | rfl | rfl | rfl | rfl | rfl <;> have hk' := kinds_single hk
  case inl =>
    obtain ⟨⟨s, hs⟩, ⟨p, hp⟩, _, _, hattr, hjoin⟩ := ef.str hk'
    exact pluginPos_returns (b608_total T env s p hs hp (hattr p hp) (hjoin p hp)) (ef.posd (by rw [hk']; simp))
  all_goals
    have pos := ef.posd (by rw [hk']; simp)
    obtain ⟨cv, hcv⟩ := ef.call hk'
    have hb := blind_call hcv
  · exact plugin_returns (b610_total _ _ _ hb) pos
  · exact plugin_returns (b611_total _ _ hb) pos
  · exact plugin_returns (b701_total _) pos
  · obtain ⟨p, B, hp, hbody, hd, hB⟩ := ef.xss hk'
    exact pluginPos_returns (b703_total T env cv B p hcv hp hbody hd hB) pos
  · rw [hm]
    exact plugin_returns (b704_total _ kvs _ _ hb hm1 hm2) pos
  · exact plugin_returns (b506_total _ _ hb) pos
  · exact plugin_returns (b614_total _ _ hb) pos
  · exact plugin_returns (b202_total _ _ hb) pos

end Groups

theorem blacklist_return (t' : BlTables) {bc : Check} (hb : blacklistCheck t' = some bc) (env : Env)
    (hcall : env.v.node.isKind "Call" = true → ∃ c, env.v.node.asCall? = some c)
    (hpos : (env.v.node.isKind "Call" || env.v.node.isKind "Import" || env.v.node.isKind "ImportFrom") = true →
      env.ctx.lineno.isSome = true ∧ env.ctx.col.isSome = true) : Returns bc env := by
  unfold blacklistCheck at hb
  split at hb
  · cases hb
  · simp only [Option.some.injEq] at hb
    subst hb
    show ∃ r, blacklistRun t' env.blind = .ok r ∧ _
    have hwf : env.blind.node.isKind "Call" = true → ∃ c, env.blind.node.asCall? = some c := by
      intro hk
      have hk' : env.v.node.isKind "Call" = true := by
        simpa [Env.blind, Env.node, Visit.erase] using hk
      obtain ⟨c, hc⟩ := hcall hk'
      exact ⟨c.erase, blind_call hc⟩
    obtain ⟨r, hr⟩ := blacklist_total t' env.blind hwf
    refine ⟨r, hr, ?_⟩
    by_cases hk : (env.v.node.isKind "Call" || env.v.node.isKind "Import" || env.v.node.isKind "ImportFrom") = true
    · exact Or.inr (hpos hk)
    · left
      simp only [Bool.or_eq_true, not_or, Bool.not_eq_true] at hk
      obtain ⟨⟨h1, h2⟩, h3⟩ := hk
      have : blacklistRun t' env.blind = .ok none := by
        simp only [blacklistRun, Env.blind, Env.node, Visit.erase, Node.erase_isKind, h1, h2, h3, Bool.false_eq_true,
          if_false, Bool.or_self, pure, Except.pure]
      rw [this] at hr
      cases hr; rfl

theorem blacklist_return_visit (t' : BlTables) {bc : Check} (hb : blacklistCheck t' = some bc)
    {v : Visit} {kind : Str} {ctx : Ctx} (vf : VisitFacts v kind ctx) (st : VState) :
    Returns bc { v := v, st := st, ctx := ctx } := by
  refine blacklist_return t' hb _ (fun hk => ?_) (fun hk => ?_)
  · obtain ⟨f, hf⟩ := Option.isSome_iff_exists.mp (vf.nf.func hk)
    exact ⟨⟨v.node, f, v.node.kidList "args", v.node.kidList "keywords"⟩,
      by simp only [Node.asCall?, hk, if_true, hf]⟩
  · have hp : v.node.pos.isSome = true := by
      apply vf.nf.pos
      simp only [Bool.or_eq_true] at hk
      rcases hk with (h | h) | h <;> (simp only [Node.isKind, beq_iff_eq] at h; rw [h]; decide)
    show ctx.lineno.isSome = true ∧ ctx.col.isSome = true
    rw [vf.line.1, vf.line.2]
    simp [Node.line?, Node.col?, hp]

/-- **Every registered check returns** — plugin or blacklist, whatever the `-t`/`-s` filter keeps —
on every visited node of a well-shaped tree, under well-formed settings, in every visitor state; and
when it reports, the context carries the line and column the tester needs. -/
theorem checks_return_visit (pc : PluginCfg) (fileName : Str) (t : BlTables) (keep : Str → Bool)
    (hcfg : configOK pc = true) {root : Node} (hwf : TreeShapeOK root) {v : Visit} (hv : v ∈ visits root)
    {kind : Str} {ctx : Ctx} (hd : dispatch v = some (kind, ctx)) (st : VState) :
    ∀ c ∈ testSet pc fileName t keep, c.kinds.contains kind = true → Returns c { v := v, st := st, ctx := ctx } := by
  intro c hc hk
  have cf := configFacts_of_configOK hcfg
  have vf := visitFacts hwf hv hd
  have ef := envFacts_of_visit vf st
  simp only [testSet, List.mem_append, List.mem_filter, Option.mem_toList, Option.mem_def] at hc
  rcases hc with ⟨hc, _⟩ | hc
  · simp only [pluginChecks, List.mem_append] at hc
    rcases hc with (((hc | hc) | hc) | hc) | hc
    · exact misc_return ef pc fileName cf c hc hk
    · exact shell_return ef pc cf c hc hk
    · exact crypto_return ef _ gen_keyTablesOK pc cf c hc hk
    · exact trojan_return ef _ c hc hk
    · exact inject_return ef _ pc cf c hc hk
  · exact blacklist_return_visit _ hc vf st

/-- … and on the `File` context -/
theorem checks_return_file (pc : PluginCfg) (fileName : Str) (t : BlTables) (keep : Str → Bool)
    (hcfg : configOK pc = true) (st : VState) (lines : List Str) :
    ∀ c ∈ testSet pc fileName t keep, c.kinds.contains "File".toList = true →
      Returns c { v := ⟨[], fileNode, none⟩, st := st, ctx := fileCtx, lines := lines } := by
  intro c hc hk
  have cf := configFacts_of_configOK hcfg
  have ef := envFacts_file st lines
  simp only [testSet, List.mem_append, List.mem_filter, Option.mem_toList, Option.mem_def] at hc
  rcases hc with ⟨hc, _⟩ | hc
  · simp only [pluginChecks, List.mem_append] at hc
    rcases hc with (((hc | hc) | hc) | hc) | hc
    · exact misc_return ef pc fileName cf c hc hk
    · exact shell_return ef pc cf c hc hk
    · exact crypto_return ef _ gen_keyTablesOK pc cf c hc hk
    · exact trojan_return ef _ c hc hk
    · exact inject_return ef _ pc cf c hc hk
  · exact blacklist_return _ hc _ (fun hk => absurd (show fileNode.isKind "Call" = true from hk) (by decide)) (fun _ => ⟨rfl, rfl⟩)

/-- **C06, the whole scan.**  On a tree with the shape CPython gives every parsed module
(`TreeShapeOK`) and with settings as the default generator emits them (`configOK`), no check of the
test set — for any profile filter `keep`, any blacklist data `t`, any nosec map, any file text —
produces an internal-error event: `crashesOf (scanFile …) = []`.  B703 included: its recursion budget
is shown to suffice, so the model's `RecursionError` outcome cannot occur either. -/
theorem scan_no_crash (pc : PluginCfg) (fileName : Str) (t : BlTables) (keep : Str → Bool) (inp : FileInput)
    (hwf : TreeShapeOK inp.root) (hcfg : configOK pc = true) :
    crashesOf (scanFile (testSet pc fileName t keep) inp) = [] := by
  apply crashesOf_eq_nil
  intro ev hev
  simp only [scanFile, List.mem_append] at hev
  rcases hev with hev | hev
  · obtain ⟨v, hv, s', hrv⟩ := mem_scanVisits hev
    unfold runVisit at hrv
    cases hd : dispatch v with
    | none => simp [hd] at hrv
    | some kc =>
      obtain ⟨kind, ctx⟩ := kc
      simp only [hd, List.mem_flatMap, checksFor, List.mem_filter] at hrv
      obtain ⟨c, ⟨hc, hk⟩, hrc⟩ := hrv
      exact runCheck_no_crash _ _ c (checks_return_visit pc fileName t keep hcfg hwf hv hd s' c hc hk) ev hrc
  · simp only [List.mem_flatMap, checksFor, List.mem_filter] at hev
    obtain ⟨c, ⟨hc, hk⟩, hrc⟩ := hev
    exact runCheck_no_crash _ _ c (checks_return_file pc fileName t keep hcfg _ _ c hc hk) ev hrc

/-! ## Non-vacuity -/

/-- ```
import os
def f(a, pw="x"):
    os.system("ls")
    try: pass
    except Exception: pass
    if a.b == "s": pass
``` -/
def sampleTree : Node :=
  let P (l c ec : Nat) : Option Pos := some ⟨l, l, c, ec⟩
  let load : Node := .mk "Load".toList none [] []
  let name (s : String) (l c : Nat) : Node :=
    .mk "Name".toList (P l c (c + s.length)) [("id".toList, Atom.str s.toList)] [("ctx".toList, false, [load])]
  let str (s : String) (l c : Nat) : Node :=
    .mk "Constant".toList (P l c (c + s.length + 2)) [("value".toList, Atom.str s.toList), ("kind".toList, Atom.none)] []
  let pass (l c : Nat) : Node := .mk "Pass".toList (P l c (c + 4)) [] []
  .mk "Module".toList none [] [
    ("body".toList, true, [
      .mk "Import".toList (P 1 0 9) [] [("names".toList, true,
        [.mk "alias".toList (P 1 7 9) [("name".toList, Atom.str "os".toList), ("asname".toList, Atom.none)] []])],
      .mk "FunctionDef".toList (some ⟨2, 6, 0, 25⟩) [("name".toList, Atom.str "f".toList)] [
        ("args".toList, false, [.mk "arguments".toList none [] [
          ("posonlyargs".toList, true, []),
          ("args".toList, true, [
            .mk "arg".toList (P 2 6 7) [("arg".toList, Atom.str "a".toList)] [],
            .mk "arg".toList (P 2 9 11) [("arg".toList, Atom.str "pw".toList)] []]),
          ("kwonlyargs".toList, true, []), ("kw_defaults".toList, true, []),
          ("defaults".toList, true, [str "x" 2 12])]]),
        ("body".toList, true, [
          .mk "Expr".toList (P 3 4 19) [] [("value".toList, false, [
            .mk "Call".toList (P 3 4 19) [] [
              ("func".toList, false, [
                .mk "Attribute".toList (P 3 4 13) [("attr".toList, Atom.str "system".toList)]
                  [("value".toList, false, [name "os" 3 4]), ("ctx".toList, false, [load])]]),
              ("args".toList, true, [str "ls" 3 14]),
              ("keywords".toList, true, [])]])],
          .mk "Try".toList (some ⟨4, 5, 4, 26⟩) [] [
            ("body".toList, true, [pass 4 9]),
            ("handlers".toList, true, [
              .mk "ExceptHandler".toList (P 5 4 26) [("name".toList, Atom.none)] [
                ("type".toList, false, [name "Exception" 5 11]),
                ("body".toList, true, [pass 5 22])]]),
            ("orelse".toList, true, []), ("finalbody".toList, true, [])],
          .mk "If".toList (P 6 4 23) [] [
            ("test".toList, false, [
              .mk "Compare".toList (P 6 7 17) [] [
                ("left".toList, false, [
                  .mk "Attribute".toList (P 6 7 10) [("attr".toList, Atom.str "b".toList)]
                    [("value".toList, false, [name "a" 6 7]), ("ctx".toList, false, [load])]]),
                ("ops".toList, true, [.mk "Eq".toList none [] []]),
                ("comparators".toList, true, [str "s" 6 14])]]),
            ("body".toList, true, [pass 6 19]),
            ("orelse".toList, true, [])]]),
        ("decorator_list".toList, true, [])]]),
    ("type_ignores".toList, true, [])]

/-- non-vacuity: a concrete module has the shape `scan_no_crash` asks for … -/
example : TreeShapeOK sampleTree := by decide +kernel

/-- … the generated default settings are well-formed … -/
example : configOK Gen.pluginDefaults = true := by decide +kernel

/-- … a `Call` that lost its `func`, or an unpositioned one, does not -/
example : ¬ TreeShapeOK (.mk "Module".toList none [] [("body".toList, true,
    [.mk "Expr".toList (some ⟨1, 1, 0, 3⟩) [] [("value".toList, false,
      [.mk "Call".toList (some ⟨1, 1, 0, 3⟩) [] [("args".toList, true, []), ("keywords".toList, true, [])]])]])]) := by
  decide +kernel

example (t : BlTables) (keep : Str → Bool) (nm : NosecMap) (lines : List Str) :
    crashesOf (scanFile (testSet Gen.pluginDefaults "m.py".toList t keep) ⟨sampleTree, nm, lines⟩) = [] :=
  scan_no_crash _ _ t keep _ (show TreeShapeOK sampleTree by decide +kernel) (by decide +kernel)

/-- The native driver does not execute `scanFile` literally (that erases the whole ancestor chain once per check per node — quadratic) but
`scanFileFast`, which erases the tree once and walks both trees in step.  It is the same function: every theorem about `scanFile`
(this file, C01, C02, C05, C10, C12 …) is a theorem about what the correspondence check runs. -/
theorem driver_scan_is_model (checks : List Check) (inp : FileInput) : scanFileFast checks inp = scanFile checks inp :=
  scanFileFast_eq checks inp

theorem scan_no_crash_driver (pc : PluginCfg) (fileName : Str) (t : BlTables) (keep : Str → Bool) (inp : FileInput)
    (hs : TreeShapeOK inp.root) (hc : configOK pc = true) :
    crashesOf (scanFileFast (testSet pc fileName t keep) inp) = [] := by
  rw [driver_scan_is_model]; exact scan_no_crash pc fileName t keep inp hs hc

end Props.C06
