import Bandit.Proofs.Total
import Bandit.Proofs.Nosec
import Props.C14
/-!
# C06 — No built-in check crashes on valid Python

`M = Except Crash`: a check "raises" iff its model returns `.error`.  The theorems below say the
modelled checks return `.ok` on **every** node shape (after the /repo fixes c28be0a, 24ed4b7, 94606d1).
The model's knowledge of which Python operations raise is hand-written; the crash monitor of
`harness/props/c06.py` closes that gap empirically on every run.
-/
namespace Props.C06
open Bandit Bandit.Plugins

/-- **Argument evaluation never raises**: `_get_literal_value`, `call_args`, `call_keywords`,
`get_call_arg_at_position`, `get_call_arg_value`, `check_call_arg_value` are total on every node —
lists, tuples, sets with unhashable elements, dicts with `**`, starred, lambdas, anything. -/
theorem evaluators_total (n : Node) (c : CallView) (name : String) (i : Nat) (vals : List PyVal) :
    (∃ v, literalValue n = .ok v) ∧ (∃ as, c.callArgs = .ok as) ∧ (∃ k, c.callKeywords = .ok k) ∧
    (∃ v, c.argAt i = .ok v) ∧ (∃ v, c.argValue name = .ok v) ∧ (∃ b, c.checkArg name vals = .ok b) :=
  ⟨literalValue_total n, callArgs_total c, callKeywords_total c, argAt_total c i, argValue_total c name,
   checkArg_total c name vals⟩

/-- a check whose decision function returns `.ok` on a positioned node produces no internal-error
event (the tester's own defaults cannot fail there) -/
theorem no_crash_event (nm : NosecMap) (env : Env) (c : Check) (l col : Nat)
    (hrun : ∃ r, c.run (env.forCheck c) = .ok r)
    (hl : env.ctx.lineno = some l) (hc : env.ctx.col = some col) :
    ∀ ev ∈ runCheck nm env c, ∀ t, ev ≠ .crash t := by
  obtain ⟨r, hr⟩ := hrun
  intro ev hev t
  unfold runCheck at hev
  rw [hr] at hev
  cases r with
  | none => simp at hev
  | some pr =>
    simp only [] at hev
    rw [emit_eq] at hev
    have hloc : ∃ lc, resolveLoc (fillId c (pr.resolve env.v)) env.ctx = some lc := by
      unfold resolveLoc
      rw [hl, hc]
      cases (fillId c (pr.resolve env.v)).lineno <;> cases (fillId c (pr.resolve env.v)).col <;>
        simp [HOrElse.hOrElse, OrElse.orElse, Option.orElse]
    obtain ⟨lc, hlc⟩ := hloc
    obtain ⟨l', c'⟩ := lc
    simp only [hlc] at hev
    cases hn : nosecsFor nm (fillId c (pr.resolve env.v)) env.ctx with
    | none => simp only [hn, List.mem_singleton] at hev; subst hev; intro h; cases h
    | some s =>
      cases s with
      | nil => simp only [hn, List.mem_singleton] at hev; subst hev; intro h; cases h
      | cons a as =>
        simp only [hn] at hev
        by_cases hcn : (a :: as).contains (fillId c (pr.resolve env.v)).id = true
        · simp only [hcn, if_true, List.mem_singleton] at hev; subst hev; intro h; cases h
        · simp only [hcn, Bool.false_eq_true, if_false, List.mem_singleton] at hev; subst hev; intro h; cases h

/-! ## The process-spawning checks -/

/-- with a well-formed `shell_injection` configuration (the three lists present), B602–B607 return
on every call node — the closed forms of `Props.C14` exist for all evaluated arguments, and
evaluation is total -/
theorem shell_checks_total (cfg : ShellCfg) (e : Env) (c : CallView)
    (h1 : cfg.truthy = true) (h2 : cfg.hasSubprocess = true) (h3 : cfg.hasShell = true) (h4 : cfg.hasNoShell = true)
    (hc : e.call? = some c) :
    (∃ r, b602 cfg e = .ok r) ∧ (∃ r, b603 cfg e = .ok r) ∧ (∃ r, b604 cfg e = .ok r) ∧
    (∃ r, b605 cfg e = .ok r) ∧ (∃ r, b606 cfg e = .ok r) := by
  obtain ⟨kws, hk⟩ := callKeywords_total c
  obtain ⟨as, ha⟩ := callArgs_total c
  have ok : Props.C14.Ok cfg e c kws as := ⟨h1, h2, h3, h4, hc, hk, ha⟩
  exact ⟨⟨_, Props.C14.b602_table cfg e c kws as ok⟩, ⟨_, Props.C14.b603_table cfg e c kws as ok⟩,
    ⟨_, Props.C14.b604_table cfg e c kws as ok⟩, ⟨_, Props.C14.b605_table cfg e c kws as ok⟩,
    ⟨_, Props.C14.b606_table cfg e c kws as ok⟩⟩

/-! ## The blacklist -/

/-- the blacklist check returns on every node: `__import__()` without arguments,
`importlib.import_module()` without a name, non-literal and wrongly typed arguments included -/
theorem blacklist_total (t : BlTables) (e : Env)
    (hwf : e.node.isKind "Call" = true → ∃ c, e.node.asCall? = some c) :      -- CPython: a Call has a `func`
    ∃ r, blacklistRun t e = .ok r := by
  by_cases hk : e.node.isKind "Call" = true
  · obtain ⟨c, hc⟩ := hwf hk
    have hname : ∃ nm, blacklistCallName e c = .ok nm := by
      by_cases h1 : (c.func.nameId? == some "__import__".toList) = true
      · simp only [blacklistCallName, h1, if_true]
        cases c.args <;> exact ⟨_, rfl⟩
      · by_cases h2 : (e.qual == "importlib.import_module".toList || e.qual == "importlib.__import__".toList) = true
        · by_cases h3 : c.args.length > 0
          · obtain ⟨as, ha⟩ := callArgs_total c
            simp only [blacklistCallName, h1, h2, h3, if_true, Bool.false_eq_true, if_false, ha, bind, Except.bind]
            cases as with
            | nil =>
              have := Props.C14.args_len.List.length_mapM_except (f := attrOrLiteral) (l := c.args) (r := []) ha
              simp at this
              simp [this] at h3
            | cons v vs => exact ⟨_, rfl⟩
          · obtain ⟨kws, hkw⟩ := callKeywords_total c
            simp only [blacklistCallName, h1, h2, h3, if_true, Bool.false_eq_true, if_false, hkw, bind, Except.bind]
            cases CallView.lookupKw kws "name" <;> exact ⟨_, rfl⟩
        · simp only [blacklistCallName, h1, h2, Bool.false_eq_true, if_false]
          exact ⟨_, rfl⟩
    obtain ⟨nm, hnm⟩ := hname
    simp only [blacklistRun, hk, if_true, hc, hnm, bind, Except.bind]
    split <;> exact ⟨_, rfl⟩
  · simp only [blacklistRun, hk, Bool.false_eq_true, if_false]
    split
    · split <;> exact ⟨_, rfl⟩
    · exact ⟨_, rfl⟩

/-! ## Small checks -/

theorem b106_go_total : ∀ l : List Node, ∃ r, b106.go l = .ok r
  | [] => ⟨_, rfl⟩
  | k :: ks => by
    obtain ⟨r, hr⟩ := b106_go_total ks
    simp only [b106.go]
    split
    · split
      · exact ⟨r, hr⟩
      · split
        · exact ⟨_, rfl⟩
        · exact ⟨r, hr⟩
    · exact ⟨r, hr⟩

/-- B106 returns on every call, `f(**"x")` included (repaired by /repo c28be0a) -/
theorem b106_total (e : Env) (c : CallView) (hc : e.call? = some c) : ∃ r, b106 e = .ok r := by
  unfold b106
  simp only [hc]
  exact b106_go_total c.keywords

/-- B102, B104, B601, B702 are plain tests of the resolved name / literal -/
theorem simple_checks_total (e : Env) :
    (∃ r, b102 e = .ok r) ∧ (∃ r, b104 e = .ok r) ∧ (∃ r, b601 e = .ok r) ∧ (∃ r, b702 e = .ok r) := by
  refine ⟨?_, ?_, ?_, ?_⟩
  · unfold b102; split <;> exact ⟨_, rfl⟩
  · unfold b104; split <;> exact ⟨_, rfl⟩
  · unfold b601; split <;> exact ⟨_, rfl⟩
  · simp only [b702]; split <;> exact ⟨_, rfl⟩

/-- B103 (chmod) returns whatever the two arguments are -/
theorem b103_total (e : Env) (c : CallView) (hc : e.call? = some c) : ∃ r, b103 e = .ok r := by
  unfold b103
  simp only [hc]
  split
  · split
    · obtain ⟨m, hm⟩ := argAt_total c 1
      obtain ⟨f, hf⟩ := argAt_total c 0
      simp only [hm, hf, bind, Except.bind, pure, Except.pure]
      split
      · split <;> exact ⟨_, rfl⟩
      · exact ⟨_, rfl⟩
    · exact ⟨_, rfl⟩
  · exact ⟨_, rfl⟩

/-- B201 / B612: keyword inspection is total -/
theorem kw_checks_total (e : Env) (c : CallView) (hc : e.call? = some c) :
    (∃ r, b201 e = .ok r) ∧ (∃ r, b612 e = .ok r) := by
  constructor
  · unfold b201
    simp only [hc]
    obtain ⟨b, hb⟩ := checkArg_total c "debug" [.str "True".toList]
    simp only [hb, bind, Except.bind, pure, Except.pure]
    split
    · split
      · split <;> exact ⟨_, rfl⟩
      · exact ⟨_, rfl⟩
    · exact ⟨_, rfl⟩
  · unfold b612
    simp only [hc]
    obtain ⟨b, hb⟩ := hasKw_total c "verify"
    simp only [hb, bind, Except.bind, pure, Except.pure]
    split
    · split <;> exact ⟨_, rfl⟩
    · exact ⟨_, rfl⟩

/-- every visited node has a parent (the module at least): `node._bandit_parent` never fails -/
theorem visited_has_parent (root : Node) : ∀ v ∈ visits root, v.anc ≠ [] := by
  have key : ∀ (n : Node) (anc : List Node), ∀ v ∈ visitsBelow anc n, v.anc ≠ [] := by
    intro n
    refine Node.rec
      (motive_1 := fun n => ∀ anc, ∀ v ∈ visitsBelow anc n, v.anc ≠ [])
      (motive_2 := fun ks => ∀ anc, anc ≠ [] → ∀ v ∈ visitsSlots anc ks, v.anc ≠ [])
      (motive_3 := fun s => ∀ anc, anc ≠ [] → ∀ v ∈ visitsList anc s.2.1 s.2.2, v.anc ≠ [])
      (motive_4 := fun s => ∀ anc, anc ≠ [] → ∀ v ∈ visitsList anc s.1 s.2, v.anc ≠ [])
      (motive_5 := fun ns => ∀ anc l, anc ≠ [] → ∀ v ∈ visitsList anc l ns, v.anc ≠ [])
      ?_ ?_ ?_ ?_ ?_ ?_ ?_ n
    · intro k p a ks ih anc v hv
      simp only [visitsBelow] at hv
      exact ih _ (by simp) v hv
    · intro anc _ v hv; simp [visitsSlots] at hv
    · intro head tail ih1 ih2 anc ha v hv
      obtain ⟨f, l, ns⟩ := head
      simp only [visitsSlots, List.mem_append] at hv
      rcases hv with h | h
      · exact ih1 anc ha v h
      · exact ih2 anc ha v h
    · intro f snd ih anc ha v hv; exact ih anc ha v hv
    · intro l ns ih anc ha v hv; exact ih anc l ha v hv
    · intro anc l _ v hv; simp [visitsList] at hv
    · intro head tail ih1 ih2 anc l ha v hv
      simp only [visitsList, List.mem_append] at hv
      rcases hv with h | h
      · split at h
        · simp at h
        · simp only [List.mem_cons] at h
          rcases h with rfl | h
          · exact ha
          · exact ih1 anc v h
      · exact ih2 anc l ha v h
  intro v hv
  exact key root [] v hv

end Props.C06
