import Bandit.Proofs.Baseline
import Bandit.Gen.IssueFields
/-!
# C07 — A baseline withholds only what it accounts for

Only property theorems live here (helper lemmas: `Bandit/Proofs/Baseline.lean`; model and `Spec`:
`Bandit/Baseline.lean`).  `b` is the baseline as loaded, `rs` the current findings after the
threshold filter, `v` the reading of `_compare_baseline_results` (`.membership` = the code as it is,
`.counting` = the proposed repair); theorems quantified over `v` hold for both.
All statements are for arbitrary lists.
-/
namespace Props.C07
open Bandit Bandit.Baseline Bandit.Baseline.Spec

/-! ### identity -/

/-- **Identity.** `Issue.__eq__` holds exactly when the seven identity fields (message, severity,
CWE id, confidence, file, test name, test id) agree; line number, line range, columns and excerpt
play no role. -/
theorem eq_iff_identity (a b : Issue) : a.eqv b = true ↔ a.ident = b.ident := eqv_iff

/-- **Round trip.** Writing a finding with `as_dict` and loading it back with `issue_from_dict`
succeeds and preserves the identity (and the line information), provided the JSON text layer in
between keeps the keys the loader reads (`JsonFaithful`, the trusted serializer). -/
theorem roundtrip_identity (ser : IssueDict → IssueDict) (hs : JsonFaithful ser) (i : Issue) :
    ∃ j, fromDict (ser (i.asDict true)) = .ok j ∧ j.ident = i.ident ∧ j.lineno = i.lineno
      ∧ j.linerange = i.linerange :=
  ⟨_, fromDict_asDict ser hs i, rfl, rfl, rfl⟩

/-! ### what is reported -/

/-- **New identity ⇒ reported.** A current finding whose identity does not occur in the baseline is
reported (under both readings, with or without an empty baseline). -/
theorem new_identity_reported (v : Variant) (b rs : List Issue) (r : Issue)
    (hr : r ∈ rs) (hnew : cnt r.ident b = 0) : r ∈ (filterCore v b rs).reported := by
  rw [reported_eq_filter, List.mem_filter]
  refine ⟨hr, ?_⟩
  cases v
  · simp [keepPred, hnew]
  · have := cnt_pos_of_mem hr
    simp only [keepPred, hnew, gt_iff_lt, decide_eq_true_eq]
    exact this

/-- **Withheld ⇒ accounted for.** A current finding that is not reported has an entry of the same
identity in the baseline. -/
theorem withheld_only_if_accounted (v : Variant) (b rs : List Issue) (r : Issue)
    (hr : r ∈ rs) (hw : r ∉ (filterCore v b rs).reported) : ∃ x ∈ b, x.ident = r.ident := by
  apply cnt_pos_iff.mp
  apply Nat.pos_of_ne_zero
  intro h0
  exact hw (new_identity_reported v b rs r hr h0)

/-- Exact characterisation of the code as it is: reported ⇔ current and absent from the baseline. -/
theorem membership_reports_iff_new (b rs : List Issue) (r : Issue) :
    r ∈ (filterCore .membership b rs).reported ↔ r ∈ rs ∧ cnt r.ident b = 0 := by
  rw [reported_eq_filter, List.mem_filter]
  simp [keepPred]

/-- **Candidates.** Under a non-empty baseline every reported finding carries as candidates exactly
the current occurrences of its identity, in scan order; it is one of them, and their number is the
current count of the identity. -/
theorem candidates_are_all_occurrences (v : Variant) (b rs : List Issue) (d : List (Issue × List Issue))
    (h : filterCore v b rs = .cands d) :
    ∀ e ∈ d, e.2 = occurrences e.1.ident rs ∧ e.1 ∈ e.2 ∧ e.2.length = cnt e.1.ident rs := by
  intro e he
  unfold filterCore at h
  split at h
  · cases h
  · injection h with h
    subst h
    obtain ⟨hu, hc⟩ := mem_findCandidates he
    have hocc : e.2 = occurrences e.1.ident rs := by rw [hc, candidates_eq_occurrences]
    refine ⟨hocc, ?_, ?_⟩
    · rw [hc, List.mem_filter]
      exact ⟨compare_sub hu, eqv_refl _⟩
    · rw [hocc, occurrences_length]

/-! ### line numbers are irrelevant -/

/-- **Lines irrelevant.** Two histories whose baselines and whose current findings agree identity
by identity (whatever their line numbers, ranges, columns, excerpts) give the same outcome once
those fields are disregarded. -/
theorem lines_irrelevant (v : Variant) (b b' rs rs' : List Issue)
    (hb : b.map Issue.ident = b'.map Issue.ident) (hr : rs.map Issue.ident = rs'.map Issue.ident) :
    (filterCore v b rs).idents = (filterCore v b' rs').idents := by
  rw [idents_filterCore, idents_filterCore, hb, hr]

/-- … and position by position: the k-th current finding is reported in one history iff the k-th
is reported in the other. -/
theorem lines_irrelevant_pointwise (v : Variant) (b b' rs rs' : List Issue)
    (hb : b.map Issue.ident = b'.map Issue.ident) (hr : rs.map Issue.ident = rs'.map Issue.ident)
    (k : Nat) (hk : k < rs.length) (hk' : k < rs'.length) :
    rs[k] ∈ (filterCore v b rs).reported ↔ rs'[k] ∈ (filterCore v b' rs').reported := by
  have hid : rs[k].ident = rs'[k].ident := by
    have h1 : (rs.map Issue.ident)[k]'(by simpa using hk) = rs[k].ident := by simp
    have h2 : (rs'.map Issue.ident)[k]'(by simpa using hk') = rs'[k].ident := by simp
    rw [← h1, ← h2]
    simp only [hr]
  rw [reported_eq_filter, reported_eq_filter, List.mem_filter, List.mem_filter,
    keepPred_congr hb hr, hid]
  simp

/-- **Accounted findings stay withheld.** If no identity occurs more often now than in the
baseline (findings were only removed and/or moved), nothing is reported and the exit status is 0. -/
theorem accounted_findings_withheld (v : Variant) (b rs : List Issue) (ez : Bool)
    (h : ∀ r ∈ rs, cnt r.ident rs ≤ cnt r.ident b) :
    (filterCore v b rs).reported = [] ∧ exitCode (filterCore v b rs) ez = 0 := by
  have hrep : (filterCore v b rs).reported = [] := by
    rw [reported_eq_filter, List.filter_eq_nil_iff]
    intro r hr
    have h1 := h r hr
    have h2 := cnt_pos_of_mem hr
    cases v <;> simp only [keepPred, decide_eq_true_eq] <;> omega
  exact ⟨hrep, by simp [exitCode, Outcome.count, hrep]⟩

/-- **A change of line numbers alone never makes an old finding reappear.** -/
theorem line_moves_silent (v : Variant) (b rs : List Issue) (ez : Bool)
    (hsame : rs.map Issue.ident = b.map Issue.ident) :
    (filterCore v b rs).reported = [] ∧ exitCode (filterCore v b rs) ez = 0 := by
  apply accounted_findings_withheld
  intro r _
  rw [cnt_eq_count_map, cnt_eq_count_map, hsame]
  exact Nat.le_refl _

/-- The order of the entries in the baseline report is irrelevant (the JSON formatter sorts them). -/
theorem baseline_order_irrelevant (v : Variant) (b b' rs : List Issue) (h : b.Perm b') :
    filterCore v b rs = filterCore v b' rs := by
  have hemp : b.isEmpty = b'.isEmpty := by
    have := h.length_eq
    cases b <;> cases b' <;> simp_all
  have hk : ∀ id, keepPred v b rs id = keepPred v b' rs id := by
    intro id; cases v <;> simp only [keepPred, cnt_perm h id]
  unfold filterCore
  rw [hemp, compare_eq_filter, compare_eq_filter]
  simp only [hk]

/-! ### re-scanning unchanged code against its own report -/

/-- **Self-baseline.** Scan, write the report of the findings that pass the thresholds (`as_dict`,
through any faithful serializer), load it as baseline and filter the same findings under the same
thresholds: the filter succeeds, reports nothing, and the exit status is 0. -/
theorem self_baseline_empty (v : Variant) (ranking : List Str) (s c : Str) (ez : Bool)
    (ser : IssueDict → IssueDict) (hs : JsonFaithful ser) (results frs : List Issue)
    (hf : thresholdFilter ranking s c results = .ok frs) :
    ∃ o, filterResults v ranking (populateBaseline (some (frs.map fun i => ser (i.asDict true))))
            results s c = .ok o
      ∧ o.reported = [] ∧ exitCode o ez = 0 := by
  obtain ⟨l, hl, hid⟩ := mapM_fromDict_ok ser hs frs
  refine ⟨_, filterResults_ok hf, ?_⟩
  simp only [populateBaseline, hl]
  exact line_moves_silent v l frs ez hid.symm

/-! ### multiplicity -/

/-- **Multiplicity (partial).** For the code as it is, an identity is reported iff it occurs more
often now than in the baseline — *outside the defect region*, i.e. when the identity is absent
from the baseline or does not occur more often now. -/
theorem multiplicity_partial (b rs : List Issue) (id : Ident)
    (hg : cnt id b = 0 ∨ cnt id rs ≤ cnt id b) :
    (∃ r ∈ (filterCore .membership b rs).reported, r.ident = id) ↔ MustReport b rs id := by
  unfold MustReport
  constructor
  · rintro ⟨r, hr, rfl⟩
    obtain ⟨hm, h0⟩ := (membership_reports_iff_new b rs r).mp hr
    have := cnt_pos_of_mem hm
    omega
  · intro hm
    have hpos : 0 < cnt id rs := by omega
    obtain ⟨r, hr, rfl⟩ := cnt_pos_iff.mp hpos
    exact ⟨r, (membership_reports_iff_new b rs r).mpr ⟨hr, by omega⟩, rfl⟩

/-- the guard of `multiplicity_partial` is exactly the complement of the known-finding region the
harness uses (`Spec.InDefectRegion`, evaluated by the driver) -/
theorem defect_region_is_guard_complement (b rs : List Issue) (id : Ident) :
    ¬ InDefectRegion b rs id ↔ (cnt id b = 0 ∨ cnt id rs ≤ cnt id b) := by
  unfold InDefectRegion
  exact Classical.not_not

/-- **Known defect, kernel-checked witness.** Baseline `[x]`, current findings `[x, x₂]` (the
baselined statement duplicated): the identity must be reported (count 2 > 1) and lies in the defect
region, yet the code as it is reports nothing and exits 0. -/
theorem NEG_duplicate_not_reported :
    MustReport [Witness.x] [Witness.x, Witness.x2] Witness.x.ident
    ∧ InDefectRegion [Witness.x] [Witness.x, Witness.x2] Witness.x.ident
    ∧ filterResults .membership Witness.ranking [Witness.x] [Witness.x, Witness.x2]
        "LOW".toList "LOW".toList = .ok (.cands [])
    ∧ exitCode (.cands []) false = 0 := by decide

/-- **Repaired comparison meets the spec in full.** With the count-based comparison the report
under a non-empty baseline is exactly the one the property demands … -/
theorem fixed_meets_spec (b rs : List Issue) (hb : b ≠ []) :
    filterCore .counting b rs = .cands (expected b rs) := by
  unfold filterCore expected
  have : b.isEmpty = false := by cases b <;> simp_all
  simp only [this, Bool.false_eq_true, ↓reduceIte]
  rw [compare_counting]
  simp only [findCandidates]
  congr 1
  apply List.map_congr_left
  intro u _
  rw [candidates_eq_occurrences]

/-- … and, with any baseline, an identity is reported iff it occurs more often now (no guard). -/
theorem fixed_multiplicity (b rs : List Issue) (id : Ident) :
    (∃ r ∈ (filterCore .counting b rs).reported, r.ident = id) ↔ MustReport b rs id := by
  rw [reported_eq_filter]
  unfold MustReport
  constructor
  · rintro ⟨r, hr, rfl⟩
    simpa [keepPred] using (List.mem_filter.mp hr).2
  · intro hm
    have hpos : 0 < cnt id rs := by omega
    obtain ⟨r, hr, rfl⟩ := cnt_pos_iff.mp hpos
    exact ⟨r, List.mem_filter.mpr ⟨hr, by simpa [keepPred] using hm⟩, rfl⟩

/-- the witness of the defect is reported, with both occurrences as candidates, by the repaired code -/
theorem fixed_duplicate_reported :
    filterResults .counting Witness.ranking [Witness.x] [Witness.x, Witness.x2] "LOW".toList "LOW".toList
      = .ok (.cands [(Witness.x, [Witness.x, Witness.x2]), (Witness.x2, [Witness.x, Witness.x2])]) := by
  decide

/-! ### instances over the tables regenerated from /repo -/

/-- the field list of `Issue.__eq__` in the source is the identity the model and the spec use -/
theorem gen_identity_fields : Gen.issueMatchTypes = matchTypes := by decide

/-- the keys `from_dict` reads are the ones the model's loader reads -/
theorem gen_loader_keys :
    Gen.issueFromDictRequired = loaderRequired ∧ Gen.issueFromDictOptional = loaderOptional := by decide

/-- every identity attribute is written by `as_dict` under the key from which `from_dict` restores
that same attribute, and every key the loader requires is written -/
theorem gen_roundtrip_keys :
    (Gen.issueMatchTypes.all fun f =>
      Gen.issueAsDictStores.any fun ka => ka.2 == f && Gen.issueFromDictStores.contains (f, ka.1)) = true
    ∧ (Gen.issueFromDictRequired.all fun k => Gen.issueAsDictKeys.contains k) = true := by decide

/-! ### non-vacuity -/

/-- the identity serializer is faithful -/
example : JsonFaithful id := ⟨fun _ => rfl, fun _ => rfl, fun _ => rfl, fun _ => rfl, fun _ => rfl,
  fun _ => rfl, fun _ => rfl, fun _ => rfl, fun _ => rfl, fun _ => rfl⟩

/-- so is one that adds/drops keys the loader does not require (`more_info`, column offsets) -/
example : JsonFaithful (fun d => { d with col_offset? := none, end_col_offset? := none }) :=
  ⟨fun _ => rfl, fun _ => rfl, fun _ => rfl, fun _ => rfl, fun _ => rfl,
   fun _ => rfl, fun _ => rfl, fun _ => rfl, fun _ => rfl, fun _ => rfl⟩

/-- `new_identity_reported`: a new message next to a baselined finding -/
example : Witness.y ∈ [Witness.x, Witness.y] ∧ cnt Witness.y.ident [Witness.x] = 0
    ∧ (filterCore .membership [Witness.x] [Witness.x, Witness.y]).reported = [Witness.y] := by decide

/-- `multiplicity_partial`: the guard holds for a non-trivial history (one old, one new identity) -/
example : (cnt Witness.x.ident [Witness.x] = 0 ∨ cnt Witness.x.ident [Witness.x, Witness.y] ≤ cnt Witness.x.ident [Witness.x])
    ∧ (cnt Witness.y.ident [Witness.x] = 0 ∨ cnt Witness.y.ident [Witness.x, Witness.y] ≤ cnt Witness.y.ident [Witness.x])
    ∧ MustReport [Witness.x] [Witness.x, Witness.y] Witness.y.ident := by decide

/-- `lines_irrelevant` / `line_moves_silent`: a moved finding has the same identity, other lines -/
example : [Witness.xMoved].map Issue.ident = [Witness.x].map Issue.ident ∧ Witness.xMoved ≠ Witness.x
    ∧ Witness.xMoved.lineno ≠ Witness.x.lineno := by decide

/-- `self_baseline_empty`: the threshold filter succeeds and is selective on a concrete mix -/
example : thresholdFilter Witness.ranking "MEDIUM".toList "LOW".toList [Witness.x, Witness.z, Witness.y]
    = .ok [Witness.z] := by decide

/-- `candidates_are_all_occurrences`: a new identity occurring twice gets both as candidates -/
example : filterCore .membership [Witness.z] [Witness.x, Witness.z, Witness.x2]
    = .cands [(Witness.x, [Witness.x, Witness.x2]), (Witness.x2, [Witness.x, Witness.x2])] := by decide

/-- a report written without excerpts (`as_dict(with_code=False)`) cannot be loaded: the baseline
stays empty and every finding is reported as a plain list -/
example : populateBaseline (some [Witness.x.asDict false]) = []
    ∧ filterCore .membership (populateBaseline (some [Witness.x.asDict false])) [Witness.x] = .plain [Witness.x] := by
  decide

end Props.C07
