import Bandit.Process
import Props.C04
import Props.C09
/-!
# C08 — Findings are a deterministic function of file, config and selection

In Lean every function is deterministic by construction, so hash-seed independence, directory
enumeration order and the absence of memory addresses in the output cannot even be *stated* about
the model: those clauses are explored by the harness (8 hash seeds, shuffled targets, repeated runs,
byte comparison).  What is logic — which other files are scanned, in which order, and which scanner
objects were constructed earlier in the process — is modelled and proved here.
-/
namespace Props.C08
open Bandit Bandit.Process

/-! ## Other files, order -/

open Bandit.Manager Bandit.Manager.Spec in
/-- **Co-scan / order invariance**: two runs over ANY two file lists that both contain a file —
different other files, different order, different positions, different outcomes of the other files —
report the same findings for it (both equal the findings of scanning it alone:
`Props.C04.isolation`). -/
theorem coscan_invariant {α : Type} (cfg : Cfg) (env : Env α) (out out' : Str → Outcome)
    (pre post pre' post' : List Str) (f : Str)
    (hn : (pre ++ f :: post).Nodup) (hs : stdinName ∉ pre ++ f :: post)
    (hn' : (pre' ++ f :: post').Nodup) (hs' : stdinName ∉ pre' ++ f :: post')
    (hord : ∀ g ∈ pre ++ f :: post, ordinary (out g) = true)
    (hord' : ∀ g ∈ pre' ++ f :: post', ordinary (out' g) = true)
    (hsame : out f = out' f) :
    (run cfg env out (pre ++ f :: post)).findingsFor (display f) =
      (run cfg env out' (pre' ++ f :: post')).findingsFor (display f) := by
  rw [Props.C04.isolation cfg env out pre post f hn hs hord,
      Props.C04.isolation cfg env out' pre' post' f hn' hs' hord']
  have hf : f ≠ stdinName := fun h => hs (h ▸ by simp)
  exact Props.C04.isolation_outcomes cfg env out out' [f] f (by simp) (by simpa using hf.symm) (by simp) hsame
    (by simpa using hord f (by simp)) (by simpa using hord' f (by simp))

open Bandit.Format in
/-- **Report order is canonical**: grouped records are a permutation of the findings, sorted by key,
in unchanged order within a key — independent of anything but the findings themselves -/
theorem report_order_canonical (agg : Agg) (l : List Issue) :
    (groupIssues agg l).Perm l ∧
    (groupIssues agg l).Pairwise (fun a b => strLe (agg.key a) (agg.key b) = true) ∧
    ∀ k : Str, (groupIssues agg l).filter (fun i => agg.key i == k) = l.filter (fun i => agg.key i == k) :=
  Props.C09.grouping_stable_sorted agg l

/-! ## Sequences of constructions and runs in one process -/

variable {σ β τ ρ : Type}

theorem exec_append (scan : Scan σ β τ ρ) (s : Shared σ β) (a b : List (Op σ β τ)) :
    exec scan s (a ++ b) = exec scan s a ++ exec scan (after s a) b := by
  induction a generalizing s with
  | nil => rfl
  | cons op ops ih =>
    cases op with
    | construct m => simp [exec, step, after, ih]
    | run m => simp [exec, step, after, ih]

/-- **Sequence (partial)**: if the most recent construction before `run m` wrote `m`'s own settings
and blacklist data (in particular: `m` is run right after it is constructed, or every manager
constructed in between has the same configuration), the run equals the run of a fresh process —
whatever was constructed or run earlier. -/
theorem sequence_partial (scan : Scan σ β τ ρ) (s : Shared σ β) (hist : List (Op σ β τ)) (m : Mgr σ β τ)
    (h : (after s hist).settings = some m.settings ∧ (after s hist).blData = some m.blData) :
    exec scan s (hist ++ [.run m]) = exec scan s hist ++ [some (spec scan m)] := by
  rw [exec_append]
  simp [exec, step, spec, h.1, h.2]

/-- constructing `m` and running it at once is always right -/
theorem construct_then_run (scan : Scan σ β τ ρ) (s : Shared σ β) (hist : List (Op σ β τ)) (m : Mgr σ β τ) :
    exec scan s (hist ++ [.construct m, .run m]) = exec scan s hist ++ [none, some (spec scan m)] := by
  rw [exec_append]
  simp [exec, step, spec]

/-- runs never disturb later runs -/
theorem runs_do_not_leak (s : Shared σ β) (m : Mgr σ β τ) (ops : List (Op σ β τ)) :
    after s (.run m :: ops) = after s ops := rfl

/-- **Counter-example to the unguarded statement** (known finding C08-shared-plugin-config):
construct A, construct B with other settings, run A — A's run reads B's settings. -/
theorem NEG_later_construct_leaks :
    let scan : Scan Nat Nat Nat (Nat × Nat × Nat) := fun t s b => (t, s, b)
    let A : Mgr Nat Nat Nat := ⟨1, 10, 100⟩
    let B : Mgr Nat Nat Nat := ⟨2, 20, 200⟩
    exec scan {} [.construct A, .construct B, .run A] = [none, none, some (1, 20, 200)] ∧
    spec scan A = (1, 10, 100) := by
  decide

/-- the configuration an operation's manager was constructed with -/
def opCfg : Op σ β τ → σ × β
  | .construct m => (m.settings, m.blData)
  | .run m => (m.settings, m.blData)

/-- what the property demands of a whole history: constructions are silent, every run is the run of a fresh process -/
def specHist (scan : Scan σ β τ ρ) (hist : List (Op σ β τ)) : List (Option ρ) :=
  hist.map fun | .construct _ => none | .run m => some (spec scan m)

/-- **One configuration per process ⇒ every history is right** (the command line, and any embedding that scans with a single configuration): if every
manager of a history — whatever its test selection — carries the same settings and blacklist data, and the shared objects are untouched or hold that
configuration, then every run of the history, in any order and any number of times, equals the run of a fresh process.  The guard of `sequence_partial`
holds at every step of such a history. -/
theorem single_config_history (scan : Scan σ β τ ρ) (c : σ × β) (s : Shared σ β) (hist : List (Op σ β τ))
    (hs : (s.settings = none ∨ s.settings = some c.1) ∧ (s.blData = none ∨ s.blData = some c.2))
    (h : ∀ op ∈ hist, opCfg op = c) :
    exec scan s hist = specHist scan hist := by
  induction hist generalizing s with
  | nil => rfl
  | cons op ops ih =>
    have hop : opCfg op = c := h op (by simp)
    have hrest : ∀ o ∈ ops, opCfg o = c := fun o ho => h o (by simp [ho])
    cases op with
    | construct m =>
      simp only [exec, step, specHist, List.map_cons]
      simp only [opCfg] at hop
      have := ih { settings := some m.settings, blData := some m.blData } (by simp [← hop]) hrest
      simpa [specHist] using this
    | run m =>
      simp only [exec, step, specHist, List.map_cons]
      simp only [opCfg] at hop
      have e1 : s.settings.getD m.settings = m.settings := by
        rcases hs.1 with h1 | h1 <;> simp [h1, ← hop]
      have e2 : s.blData.getD m.blData = m.blData := by
        rcases hs.2 with h1 | h1 <;> simp [h1, ← hop]
      have := ih s hs hrest
      simp only [e1, e2, spec]
      simpa [specHist, spec] using this

/-- **the last construction decides**: after any history ending in the construction of `m`, the shared objects hold exactly `m`'s settings and
blacklist data — nothing earlier survives -/
theorem last_construct_wins (s : Shared σ β) (hist : List (Op σ β τ)) (m : Mgr σ β τ) :
    after s (hist ++ [.construct m]) = { settings := some m.settings, blData := some m.blData } := by
  induction hist generalizing s with
  | nil => rfl
  | cons op ops ih => cases op <;> simp only [List.cons_append, after] <;> exact ih _

/-- **a run can be repeated**: running the same manager twice in a row gives the same result twice, whatever came before -/
theorem rerun_same_result (scan : Scan σ β τ ρ) (s : Shared σ β) (hist : List (Op σ β τ)) (m : Mgr σ β τ) :
    ∃ r, exec scan s (hist ++ [.run m, .run m]) = exec scan s hist ++ [some r, some r] := by
  rw [exec_append]
  exact ⟨_, rfl⟩

/-- non-vacuity: a history with three managers of one configuration and different selections, runs interleaved with constructions -/
example :
    let scan : Scan Nat Nat Nat (Nat × Nat × Nat) := fun t s b => (t, s, b)
    let A : Mgr Nat Nat Nat := ⟨1, 10, 100⟩
    let B : Mgr Nat Nat Nat := ⟨2, 10, 100⟩
    exec scan {} [.run A, .construct A, .construct B, .run A, .run B, .run A]
      = specHist scan [.run A, .construct A, .construct B, .run A, .run B, .run A] := by
  decide

end Props.C08
