import Bandit.Proofs.Format
import Bandit.Proofs.FormatSarif
import Bandit.Proofs.FormatDoc
import Bandit.Proofs.FormatCustom
import Bandit.Proofs.FormatRecords
/-!
# C09 — every report format renders the same findings, safely encoded

Only property theorems live here (model: `Bandit/Format.lean`, spec: `Bandit/Spec/Format.lean`,
helper lemmas: `Bandit/Proofs/Format*.lean`).  The stdlib serialisers (`json`, `yaml`, `csv`,
`ElementTree`, `sarif_om`) are *not* modelled: a leaf tagged `viaSerializer` is assumed to decode to
the value that was handed over; the harness checks that assumption on every produced report.
-/
namespace Props.C09
open Bandit Bandit.Format Bandit.Format.Spec

/-! ### HTML escaping -/

/-- **Round trip.** Decoding the five entities undoes `html.escape(quote=True)` for every string. -/
theorem html_roundtrip (s : Str) : htmlUnescape (htmlEscape s) = s :=
  unescapeFuel_escape s _ (Nat.le_refl _)

/-- **No markup survives.** The escaped text contains no `<`, `>`, `"`, `'`, and every `&` in it
starts one of the five entities. -/
theorem html_no_markup (s : Str) :
    (∀ c ∈ htmlEscape s, c ≠ '<' ∧ c ≠ '>' ∧ c ≠ '"' ∧ c ≠ '\'') ∧
    (∀ pre post, htmlEscape s = pre ++ '&' :: post → ∃ e ∈ entities, e.1 <+: '&' :: post) := by
  refine ⟨?_, amp_starts_entity s⟩
  intro c hc
  obtain ⟨x, _, hx⟩ := mem_htmlEscape.mp hc
  exact escChar_no_markup x c hx

/-! ### Excerpts and the SARIF region -/

/-- `get_code` renders exactly the window of source lines `lmin .. lmax-1` that exist, numbered. -/
theorem get_code_is_numbered_window (file : List Str) (lineno rangeLen : Nat) (n : Int) (tabbed : Bool)
    (hfile : ∀ t ∈ file, IsLine t) :
    getCode file lineno rangeLen n tabbed =
      (numbered (if tabbed then '\t' else ' ') (lmin lineno n)
        (window file (lmin lineno n) (lmax lineno rangeLen n - lmin lineno n))).flatten := by
  have hne : ∀ t ∈ file, t ≠ [] := by
    intro t ht; obtain ⟨b, rfl, _⟩ := hfile t ht; simp
  have h1 : 1 ≤ lmin lineno n := by unfold lmin; omega
  simp only [getCode, getCodeLines]
  rw [codeLines_window file _ hne _ _ h1]

/-- **`parse_code ∘ render = id`.** SARIF's `parse_code` recovers the first line number and the
source lines from the `"%i %s"` rendering, for any non-empty list of lines (none containing an
inner newline), whatever else they contain (spaces, digits, tabs, markup, …). -/
theorem sarif_parse_render (l : Nat) (ts : List Str) (hne : ts ≠ []) (h : ∀ t ∈ ts, IsLine t) :
    parseCode (numbered ' ' l ts).flatten = .ok (l, ts) :=
  parseCode_render l ts hne h

/-- **Region arithmetic (partial).** Guard `hlo`: the 3-line excerpt window reaches back to the first
line `r0` of the finding's range (always true when the finding is reported on the first or second
line of its range).  Then the SARIF location is produced, `startLine = r0`, the snippet is the
source line `r0`, and the context region starts at `lmin`. -/
theorem sarif_index_in_range_partial (file : List Str) (lineno : Nat) (range : List Nat) (col endCol : Int) (r0 : Nat)
    (hfile : ∀ t ∈ file, IsLine t) (hr : range.head? = some r0)
    (hlo : lmin lineno 3 ≤ r0) (hhi : r0 ≤ lineno) (hin : lineno ≤ file.length) :
    ∃ loc, addRegion range col endCol (getCode file lineno range.length 3 false) = .ok loc
      ∧ loc.region.startLine = r0 ∧ loc.region.snippet = some (getLine file r0)
      ∧ loc.ctx.map (·.startLine) = some (lmin lineno 3) :=
  addRegion_in_range file lineno range col endCol r0 hfile hr hlo hhi hin

/-- **The SARIF location is produced for every finding** (since /repo fix "SARIF snippet index"): for a
finding reported on any line of a file of well-formed lines, whatever its range, the region is built,
`startLine` is the first line of the range, the context region starts at the excerpt's first line, and
the snippet is the excerpt line at that index — absent (not a wrong line, not an `IndexError`) when
the excerpt starts below the first line of the range. -/
theorem sarif_region_total (file : List Str) (lineno : Nat) (range : List Nat) (col endCol : Int) (r0 : Nat)
    (hfile : ∀ t ∈ file, IsLine t) (hr : range.head? = some r0) (h1 : 1 ≤ lineno) (hin : lineno ≤ file.length) :
    ∃ loc, addRegion range col endCol (getCode file lineno range.length 3 false) = .ok loc
      ∧ loc.region.startLine = r0
      ∧ loc.region.snippet = snippetAt (window file (lmin lineno 3) (range.length + 2)) ((r0 : Int) - (lmin lineno 3 : Nat))
      ∧ loc.ctx.map (·.startLine) = some (lmin lineno 3) :=
  addRegion_total file lineno range col endCol r0 hfile hr h1 hin

/-- **Regression** (the witnesses of the former known finding C09-sarif-negative-snippet-index): a call
spanning lines 1–5 reported on line 5.  The snippet index is `1 - 4 = -3`; the pinned code raised
`IndexError` when the file ended with the call (no SARIF report at all) and showed line 6 as the
snippet of line 1 otherwise.  The repaired code produces the region without a snippet. -/
theorem FIXED_sarif_negative_index :
    ¬ (lmin 5 3 ≤ 1) ∧
    (addRegion [1, 2, 3, 4, 5] 0 13 (getCode (srcLines 5) 5 5 3 false)).toOption.map
        (fun loc => (loc.region.startLine, loc.region.snippet)) = some (1, none) ∧
    (addRegion [1, 2, 3, 4, 5] 0 13 (getCode (srcLines 8) 5 5 3 false)).toOption.map
        (fun loc => (loc.region.startLine, loc.region.snippet)) = some (1, none) := by
  refine ⟨by decide, by decide, by decide⟩

/-! ### Records -/

/-- **One record per finding**, in the manager's order — JSON/YAML in grouped order, which is a
permutation of it.  (`recordOf` is the record of one finding; SARIF's can fail, see above.) -/
theorem one_record_per_finding (cfg : HtmlCfg) (fmt : Fmt) (agg : Agg) (n : Int) (issues : List Issue)
    (skips : List (Str × Str)) (doc : Doc) (h : render cfg fmt agg n issues skips = .ok doc) :
    doc.records.length = issues.length ∧
    Forall₂ (fun i r => recordOf cfg n fmt i = .ok r) (reportOrder fmt agg issues) doc.records ∧
    (reportOrder fmt agg issues).Perm issues := by
  have hperm : (reportOrder fmt agg issues).Perm issues := by
    unfold reportOrder; split
    · exact List.mergeSort_perm _ _
    · exact List.Perm.refl _
  have hmap : ∀ (f : Issue → Record) (l : List Issue), (∀ i, recordOf cfg n fmt i = .ok (f i)) →
      Forall₂ (fun i r => recordOf cfg n fmt i = .ok r) l (l.map f) := by
    intro f l hf
    induction l with
    | nil => exact .nil
    | cons a l ih => exact .cons (hf a) ih
  have key : Forall₂ (fun i r => recordOf cfg n fmt i = .ok r) (reportOrder fmt agg issues) doc.records := by
    cases fmt with
    | json => simp only [render, Except.ok.injEq] at h; subst h; exact hmap _ _ (fun _ => rfl)
    | yaml => simp only [render, Except.ok.injEq] at h; subst h; exact hmap _ _ (fun _ => rfl)
    | csv => simp only [render, Except.ok.injEq] at h; subst h; exact hmap _ _ (fun _ => rfl)
    | xml => simp only [render, Except.ok.injEq] at h; subst h; exact hmap _ _ (fun _ => rfl)
    | html => simp only [render, Except.ok.injEq] at h; subst h; exact hmap _ _ (fun _ => rfl)
    | sarif =>
      simp only [render, bind, Except.bind] at h
      cases hm : issues.mapM sarifRecord with
      | error e => rw [hm] at h; cases h
      | ok rs =>
        rw [hm] at h
        simp only [pure, Except.pure, Except.ok.injEq] at h
        subst h
        exact mapM_ok_forall₂ sarifRecord issues rs hm
  exact ⟨by rw [forall₂_length key, hperm.length_eq], key, hperm⟩

/-- **Six fields present.** In every format except SARIF, the record of a finding carries the
finding's own test ID, file, line, severity, confidence and message (as values handed to the
serialiser, or written by bandit itself) — so any two of these formats agree on them. -/
theorem six_fields_present (cfg : HtmlCfg) (fmt : Fmt) (hf : fmt ≠ .sarif) (n : Int) (i : Issue) (r : Record)
    (h : recordOf cfg n fmt i = .ok r) : Carries r i := by
  cases fmt with
  | sarif => exact absurd rfl hf
  | json => simp only [recordOf, Except.ok.injEq] at h; subst h; exact carries_json n i
  | yaml => simp only [recordOf, Except.ok.injEq] at h; subst h; exact carries_yaml n i
  | csv => simp only [recordOf, Except.ok.injEq] at h; subst h; exact carries_csv i
  | xml => simp only [recordOf, Except.ok.injEq] at h; subst h; exact carries_xml i
  | html => simp only [recordOf, Except.ok.injEq] at h; subst h; exact carries_html cfg n i

/-- **Six fields, SARIF (partial).** Guard: the finding is reported on the first line of its range.
SARIF writes `line_range[0]` as `startLine` and never the finding's `line_number`. -/
theorem six_fields_present_sarif_partial (cfg : HtmlCfg) (n : Int) (i : Issue) (r : Record)
    (guard : i.range.head? = some i.lineno)
    (h : recordOf cfg n .sarif i = .ok r) : Carries r i := by
  simp only [recordOf, sarifRecord, bind, Except.bind] at h
  cases ha : addRegion i.range i.col i.endCol (i.code 3) with
  | error e => rw [ha] at h; cases h
  | ok loc =>
    rw [ha] at h
    simp only [pure, Except.pure, Except.ok.injEq] at h
    have hstart : loc.region.startLine = i.lineno := by
      have := addRegion_startLine ha
      rw [guard] at this
      exact (Option.some.inj this).symm
    subst h
    intro o ho
    simp only [sixFields, List.mem_cons, List.not_mem_nil, or_false] at ho
    rcases ho with rfl | rfl | rfl | rfl | rfl | rfl
    · exact ⟨ser .testId i.testId, by simp, rfl, rfl⟩
    · exact ⟨ser .file i.fname, by simp, rfl, rfl⟩
    · exact ⟨ser .line (natStr loc.region.startLine), by simp, rfl, by simp [ser, fieldVal, hstart]⟩
    · exact ⟨ser .sev i.sev, by simp, rfl, rfl⟩
    · exact ⟨ser .conf i.conf, by simp, rfl, rfl⟩
    · exact ⟨ser .text i.text, by simp, rfl, rfl⟩

/-- **Counter-example without the guard** (known finding): a finding on line 3 of the range 2–4 gets
`startLine = 2` in SARIF; no leaf of the record carries line 3. -/
theorem NEG_sarif_line_is_range_start :
    ((recordOf HtmlCfg.current 3 .sarif (witnessIssue 3 [2, 3, 4] "m")).toOption.map
        fun r => (r.filter (·.origin == .line)).map (·.val)) = some ["2".toList] ∧
    fieldVal (witnessIssue 3 [2, 3, 4] "m") .line = "3".toList ∧
    ¬ ((witnessIssue 3 [2, 3, 4] "m").range.head? = some (witnessIssue 3 [2, 3, 4] "m").lineno) := by
  decide

/-- **All formats agree**: the six values in the records of one finding are the same in any two
formats (SARIF under its guard). -/
theorem formats_agree (r₁ r₂ : Record) (i : Issue) (h₁ : Carries r₁ i) (h₂ : Carries r₂ i) :
    ∀ o ∈ sixFields, ∃ l₁ ∈ r₁, ∃ l₂ ∈ r₂, l₁.origin = o ∧ l₂.origin = o ∧ l₁.val = l₂.val := by
  intro o ho
  obtain ⟨l₁, m₁, o₁, v₁⟩ := h₁ o ho
  obtain ⟨l₂, m₂, o₂, v₂⟩ := h₂ o ho
  exact ⟨l₁, m₁, l₂, m₂, o₁, o₂, v₁.trans v₂.symm⟩

/-! ### Grouping -/

/-- **Grouping is a stable sort**: the grouped list is a permutation of the findings, ordered by the
grouping key (file name, or test name with `-a vuln`; Python's code-point order), and within one
key the scan order is kept. -/
theorem grouping_stable_sorted (agg : Agg) (l : List Issue) :
    (groupIssues agg l).Perm l ∧
    (groupIssues agg l).Pairwise (fun a b => strLe (agg.key a) (agg.key b) = true) ∧
    ∀ k : Str, (groupIssues agg l).filter (fun i => agg.key i == k) = l.filter (fun i => agg.key i == k) := by
  let le : Issue → Issue → Bool := fun a b => strLe (agg.key a) (agg.key b)
  have htrans : ∀ a b c : Issue, le a b = true → le b c = true → le a c = true :=
    fun a b c => strLe_trans _ _ _
  have htotal : ∀ a b : Issue, (le a b || le b a) = true := fun a b => strLe_total _ _
  have hperm : (groupIssues agg l).Perm l := List.mergeSort_perm _ _
  refine ⟨hperm, List.pairwise_mergeSort htrans htotal l, ?_⟩
  intro k
  have hsub : List.Sublist (l.filter (fun i => agg.key i == k)) l := List.filter_sublist
  have hpw : (l.filter (fun i => agg.key i == k)).Pairwise (fun a b => le a b = true) := by
    rw [List.pairwise_filter]
    apply List.Pairwise.imp _ (List.pairwise_of_forall (l := l) (R := fun _ _ => True) (fun _ _ => trivial))
    intro a b _ ha hb
    have ea : agg.key a = k := by simpa using ha
    have eb : agg.key b = k := by simpa using hb
    simp only [le, ea, eb, strLe_refl]
  have hs : List.Sublist (l.filter (fun i => agg.key i == k)) (groupIssues agg l) :=
    List.sublist_mergeSort htrans htotal hpw hsub
  have hs' := hs.filter (fun i => agg.key i == k)
  rw [List.filter_filter] at hs'
  simp only [Bool.and_self] at hs'
  exact (hs'.eq_of_length (by
    have := (hperm.filter (fun i => agg.key i == k)).length_eq
    omega)).symm

/-- **Groups are contiguous**: between two records with the same key only records with that key occur. -/
theorem grouping_contiguous (agg : Agg) (l p m s : List Issue) (x z : Issue)
    (h : groupIssues agg l = p ++ x :: (m ++ z :: s)) (hk : agg.key x = agg.key z) :
    ∀ y ∈ m, agg.key y = agg.key x := by
  have hpw := (grouping_stable_sorted agg l).2.1
  rw [h] at hpw
  intro y hy
  have h2 : (x :: (m ++ z :: s)).Pairwise (fun a b => strLe (agg.key a) (agg.key b) = true) :=
    (List.pairwise_append.mp hpw).2.1
  obtain ⟨hx, hrest⟩ := List.pairwise_cons.mp h2
  have hxy := hx y (by simp [hy])
  have hyz : strLe (agg.key y) (agg.key z) = true :=
    (List.pairwise_append.mp hrest).2.2 y hy z (by simp)
  rw [← hk] at hyz
  exact strLe_antisymm _ _ hyz hxy

/-! ### Skipped files -/

/-- **Skipped files are listed** (name and reason, one entry per skipped file, in order) by JSON,
YAML, SARIF and HTML. -/
theorem skipped_listed (cfg : HtmlCfg) (fmt : Fmt) (hf : fmt = .json ∨ fmt = .yaml ∨ fmt = .sarif ∨ fmt = .html)
    (agg : Agg) (n : Int) (issues : List Issue) (skips : List (Str × Str)) (doc : Doc)
    (h : render cfg fmt agg n issues skips = .ok doc) :
    ∃ enc, doc.skipped = some (skips.map fun s => [⟨.skipName, enc, s.1⟩, ⟨.skipReason, enc, s.2⟩]) := by
  rcases hf with rfl | rfl | rfl | rfl
  · simp only [render, Except.ok.injEq] at h; subst h; exact ⟨.viaSerializer, rfl⟩
  · simp only [render, Except.ok.injEq] at h; subst h; exact ⟨.viaSerializer, rfl⟩
  · simp only [render, bind, Except.bind] at h
    cases hm : issues.mapM sarifRecord with
    | error e => rw [hm] at h; cases h
    | ok rs =>
      rw [hm] at h
      simp only [pure, Except.pure, Except.ok.injEq] at h
      subst h; exact ⟨.viaSerializer, rfl⟩
  · simp only [render, Except.ok.injEq] at h; subst h; exact ⟨encIf cfg.escSkipped, rfl⟩

/-- observation (narrow reading of "lists skipped files"): the CSV and XML reports have no section
for skipped files at all -/
theorem csv_xml_no_skipped_section (cfg : HtmlCfg) (agg : Agg) (n : Int) (issues : List Issue) (skips : List (Str × Str)) :
    (render cfg .csv agg n issues skips).map (·.skipped) = .ok none ∧
    (render cfg .xml agg n issues skips).map (·.skipped) = .ok none := ⟨rfl, rfl⟩

/-! ### Escaping of source-derived text -/

/-- **Source-derived text is never written verbatim (partial).** Guard: the format is not HTML, or
the HTML formatter escapes text, path and skipped entries (`HtmlCfg.fixed`, i.e. after the proposed
fix).  Every leaf that carries finding text, a file name, a source excerpt or a skipped-file entry
is escaped or handed to a serialiser. -/
theorem source_text_escaped_partial (cfg : HtmlCfg) (fmt : Fmt) (guard : fmt ≠ .html ∨ cfg = HtmlCfg.fixed)
    (agg : Agg) (n : Int) (issues : List Issue) (skips : List (Str × Str)) (doc : Doc)
    (h : render cfg fmt agg n issues skips = .ok doc) :
    (∀ r ∈ doc.records, ∀ l ∈ r, l.origin.fromSource = true → l.enc ≠ .raw) ∧
    (∀ sk, doc.skipped = some sk → ∀ r ∈ sk, ∀ l ∈ r, l.enc ≠ .raw) := by
  have hsk : ∀ (enc : Enc) (henc : enc ≠ .raw), ∀ r ∈ skips.map (skipRecord enc), ∀ l ∈ r, l.enc ≠ .raw := by
    intro enc henc r hr l hl
    simp only [List.mem_map] at hr
    obtain ⟨s, _, rfl⟩ := hr
    simp only [skipRecord, List.mem_cons, List.not_mem_nil, or_false] at hl
    rcases hl with rfl | rfl <;> exact henc
  have ser_ne : Enc.viaSerializer ≠ Enc.raw := by decide
  cases fmt with
  | json =>
    simp only [render, Except.ok.injEq] at h; subst h
    refine ⟨?_, ?_⟩
    · intro r hr l hl _
      simp only [List.mem_map] at hr
      obtain ⟨i, _, rfl⟩ := hr
      rw [all_ser_json n i l hl]; exact ser_ne
    · intro sk hsk'; simp only [Option.some.injEq] at hsk'; subst hsk'; exact hsk _ ser_ne
  | yaml =>
    simp only [render, Except.ok.injEq] at h; subst h
    refine ⟨?_, ?_⟩
    · intro r hr l hl _
      simp only [List.mem_map] at hr
      obtain ⟨i, _, rfl⟩ := hr
      rw [all_ser_yaml n i l hl]; exact ser_ne
    · intro sk hsk'; simp only [Option.some.injEq] at hsk'; subst hsk'; exact hsk _ ser_ne
  | csv =>
    simp only [render, Except.ok.injEq] at h; subst h
    refine ⟨?_, ?_⟩
    · intro r hr l hl _
      simp only [List.mem_map] at hr
      obtain ⟨i, _, rfl⟩ := hr
      rw [all_ser_csv i l hl]; exact ser_ne
    · intro sk hsk'; cases hsk'
  | xml =>
    simp only [render, Except.ok.injEq] at h; subst h
    refine ⟨?_, ?_⟩
    · intro r hr l hl _
      simp only [List.mem_map] at hr
      obtain ⟨i, _, rfl⟩ := hr
      rw [all_ser_xml i l hl]; exact ser_ne
    · intro sk hsk'; cases hsk'
  | sarif =>
    simp only [render, bind, Except.bind] at h
    cases hm : issues.mapM sarifRecord with
    | error e => rw [hm] at h; cases h
    | ok rs =>
      rw [hm] at h
      simp only [pure, Except.pure, Except.ok.injEq] at h
      subst h
      refine ⟨?_, ?_⟩
      · intro r hr l hl _
        obtain ⟨i, _, hi⟩ := forall₂_mem_right (mapM_ok_forall₂ sarifRecord issues rs hm) r hr
        rw [all_ser_sarif i r hi l hl]; exact ser_ne
      · intro sk hsk'; simp only [Option.some.injEq] at hsk'; subst hsk'; exact hsk _ ser_ne
  | html =>
    have hcfg : cfg = HtmlCfg.fixed := by
      rcases guard with g | g
      · exact absurd rfl g
      · exact g
    subst hcfg
    simp only [render, Except.ok.injEq] at h; subst h
    refine ⟨?_, ?_⟩
    · intro r hr l hl hs
      simp only [List.mem_map] at hr
      obtain ⟨i, _, rfl⟩ := hr
      rcases html_leaf_enc _ n i l hl hs with ⟨_, e⟩ | ⟨_, e⟩ | ⟨_, e⟩ <;> rw [e] <;> decide
    · intro sk hsk'; simp only [Option.some.injEq] at hsk'; subst hsk'
      exact hsk _ (by decide)

/-- whatever the configuration, the HTML excerpt is always escaped (that is the one `html_escape`
call the code under study has) -/
theorem html_code_escaped (cfg : HtmlCfg) (n : Int) (i : Issue) :
    ∀ l ∈ htmlRecord cfg n i, l.origin = .code → l.enc = .escaped := by
  intro l hl ho
  have hs : l.origin.fromSource = true := by rw [ho]; rfl
  rcases html_leaf_enc cfg n i l hl hs with ⟨_, e⟩ | ⟨o, _⟩ | ⟨o, _⟩
  · exact e
  · rw [ho] at o; cases o
  · rw [ho] at o; cases o

/-- **Counter-example without the guard** (known finding): for `password = "<script>…"` the HTML
report of the code under study contains the finding's message as a *raw* leaf with a `<` in it; so
do the file path and the skipped-file entry. -/
theorem NEG_html_text_raw :
    ∃ doc, render HtmlCfg.current .html .file 3 [witnessIssue 1 [1] "Possible hardcoded password: '<script>'"]
            [("<b>.py".toList, "syntax error".toList)] = .ok doc ∧
      (∃ r ∈ doc.records, ∃ l ∈ r, l.origin = .text ∧ l.enc = .raw ∧ '<' ∈ l.val) ∧
      (∃ r ∈ doc.records, ∃ l ∈ r, l.origin = .file ∧ l.enc = .raw) ∧
      (∃ r ∈ doc.skipped.getD [], ∃ l ∈ r, l.origin = .skipName ∧ l.enc = .raw ∧ '<' ∈ l.val) := by
  refine ⟨_, rfl, ?_⟩
  decide

/-! ### Custom templates -/

/-- **Custom templates are total and mean what they say.** For every user template made of literal
text, doubled braces and plain `{tag}` fields (at least one), validation accepts it and the report
is exactly one line per finding with every documented tag replaced by the finding's value verbatim —
whatever characters the values contain — literal braces preserved, unknown tags printed as their
bare name. -/
theorem custom_template_total (segs : List TSeg) (h : ∀ s ∈ segs, s.WF) (ht : ∃ s ∈ segs, s.isTag = true)
    (issues : List Issue) :
    customReport (templateSource segs) issues = .ok (reportMeaning segs issues) :=
  customReport_meaning segs h ht issues

/-- **Six fields, custom.** A user template that mentions the six tags yields records carrying the six
values verbatim (the file as `{abspath}`; hypothesis: the file was given by its absolute path). -/
theorem six_fields_present_custom (toks : List Tok) (i : Issue) (habs : i.abspath = i.fname)
    (h : ∀ t ∈ ["test_id", "abspath", "line", "severity", "confidence", "msg"], Tok.tag t.toList ∈ toks) :
    Carries (customRecord toks i) i := by
  intro o ho
  simp only [sixFields, List.mem_cons, List.not_mem_nil, or_false] at ho
  simp only [customRecord, List.mem_filterMap]
  rcases ho with rfl | rfl | rfl | rfl | rfl | rfl
  · exact ⟨⟨.testId, .raw, i.testId⟩, ⟨.tag "test_id".toList, h _ (by simp), rfl⟩, rfl, rfl⟩
  · exact ⟨⟨.file, .raw, i.abspath⟩, ⟨.tag "abspath".toList, h _ (by simp), rfl⟩, rfl, habs⟩
  · exact ⟨⟨.line, .raw, natStr i.lineno⟩, ⟨.tag "line".toList, h _ (by simp), rfl⟩, rfl, rfl⟩
  · exact ⟨⟨.sev, .raw, i.sev⟩, ⟨.tag "severity".toList, h _ (by simp), rfl⟩, rfl, rfl⟩
  · exact ⟨⟨.conf, .raw, i.conf⟩, ⟨.tag "confidence".toList, h _ (by simp), rfl⟩, rfl, rfl⟩
  · exact ⟨⟨.text, .raw, i.text⟩, ⟨.tag "msg".toList, h _ (by simp), rfl⟩, rfl, rfl⟩

/-! ### Non-vacuity -/

/-- the hypotheses of `sarif_parse_render` / `sarif_index_in_range_partial` are met by real-looking lines -/
example : ∀ t ∈ srcLines 8, IsLine t := by
  intro t ht
  simp only [srcLines, List.mem_map, List.mem_range] at ht
  obtain ⟨j, _, rfl⟩ := ht
  refine ⟨'l' :: natStr (j + 1), by simp, ?_⟩
  simp only [List.mem_cons, not_or]
  exact ⟨by decide, natStr_no_nl _⟩

/-- the guard of `sarif_index_in_range_partial` holds for a finding on the second line of its range -/
example : lmin 3 3 ≤ 2 ∧ 2 ≤ 3 ∧ 3 ≤ (srcLines 8).length ∧ [2, 3, 4].head? = some 2 := by decide

/-- `html_roundtrip` on a string that already contains entities -/
example : htmlEscape "<a href=\"x\">&amp;'</a>".toList = "&lt;a href=&quot;x&quot;&gt;&amp;amp;&#x27;&lt;/a&gt;".toList := by
  decide

/-- a template with literal braces, a known and an unknown tag satisfies `custom_template_total`'s hypotheses -/
example : (∀ s ∈ [TSeg.lbrace, .text "x: ".toList, .tag "msg".toList, .rbrace, .tag "foo".toList], s.WF) ∧
    templateSource [TSeg.lbrace, .text "x: ".toList, .tag "msg".toList, .rbrace, .tag "foo".toList] = "{{x: {msg}}}{foo}".toList := by
  refine ⟨?_, by decide⟩
  intro s hs
  simp only [List.mem_cons, List.not_mem_nil, or_false] at hs
  rcases hs with rfl | rfl | rfl | rfl | rfl
  · trivial
  · intro c hc; revert c; decide
  · exact ⟨by decide, by decide⟩
  · trivial
  · exact ⟨by decide, by decide⟩

/-- `grouping_contiguous`'s hypothesis is satisfiable: three findings of one file stay as they are -/
example : groupIssues .file [witnessIssue 1 [1] "a", witnessIssue 2 [2] "b", witnessIssue 3 [3] "c"]
    = [] ++ witnessIssue 1 [1] "a" :: ([witnessIssue 2 [2] "b"] ++ witnessIssue 3 [3] "c" :: []) :=
  List.mergeSort_of_pairwise (by decide)

end Props.C09
