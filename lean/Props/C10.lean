import Bandit.Proofs.Loc
import Bandit.Proofs.Nosec
import Bandit.Format
/-!
# C10 — Reported locations and excerpts point at the flagged code
-/
namespace Props.C10
open Bandit

/-- **A range is a contiguous ascending run**: its `i`-th element is `lo + i` -/
theorem range_contiguous_ascending (lo hi i : Nat) (h : i < (rangeList lo hi).length) :
    (rangeList lo hi)[i] = lo + i ∧ (rangeList lo hi).length = hi + 1 - lo :=
  ⟨rangeList_getElem lo hi i h, rangeList_length lo hi⟩

/-- the range of a positioned construct is exactly its physical lines -/
theorem range_is_construct_span (n : Node) (sib : Option Node) (p : Pos) (hp : n.pos = some p) :
    linerange n sib = rangeList p.line p.endLine ∧ ∀ l, l ∈ linerange n sib ↔ p.line ≤ l ∧ l ≤ p.endLine := by
  have : linerange n sib = rangeList p.line p.endLine := by simp [linerange, hp]
  exact ⟨this, fun l => by rw [this]; exact mem_rangeList⟩

/-- the keyword line a `.kw` selector resolves to is the first line of a node below the call -/
theorem kwLine_desc (n : Node) (name : String) (l : Nat) (h : kwLine n name = some l) :
    ∃ d ∈ n.descendants, d.line? = some l := by
  unfold kwLine at h
  cases hc : n.asCall? with
  | none => simp [hc] at h
  | some c =>
    simp only [hc] at h
    have hkw : c.keywords = n.kidList "keywords" := by
      unfold Node.asCall? at hc
      split at hc
      · cases hf : n.kid? "func" with
        | none => simp [hf] at hc
        | some f => simp [hf] at hc; rw [← hc]
      · cases hc
    unfold CallView.kwLineno at h
    cases hfind : c.keywords.find? (fun k => CallView.kwName k == some name.toList) with
    | none => simp [hfind] at h
    | some k =>
      simp only [hfind] at h
      have hk : k ∈ n.kidList "keywords" := hkw ▸ List.mem_of_find?_eq_some hfind
      cases hv : CallView.kwValue k with
      | none => simp [hv] at h
      | some val =>
        simp only [hv, Option.bind_some] at h
        exact ⟨val, kidList_kid?_desc hk hv, h⟩

/-- the line a raw result resolves to (when the check supplies one) belongs to the visited node or
to a node below it -/
theorem resolved_line_source (v : Visit) (pr : PRaw) (l : Nat) (hl : (pr.resolve v).lineno = some l)
    (hnabs : ∀ a b, pr.loc ≠ .abs a b) :
    v.node.line? = some l ∨ ∃ d ∈ v.node.descendants, d.line? = some l := by
  unfold PRaw.resolve at hl
  cases hloc : pr.loc with
  | ctx => simp [hloc] at hl
  | node => simp [hloc] at hl; exact Or.inl hl
  | kw names =>
    simp only [hloc] at hl
    obtain ⟨name, _, hn⟩ := List.exists_of_findSome?_eq_some hl
    exact Or.inr (kwLine_desc _ _ _ hn)
  | abs a b => exact absurd hloc (hnabs a b)

/-- **The reported line lies inside the reported range.**  For every check that locates its finding
by a selector (context default, the node's own line, or a keyword's line — every check except the
file-level one) on a positioned node whose span is well-formed, a reported or withheld finding's line
is one of the lines of its range, and the range is the node's span. -/
theorem line_in_range (nm : NosecMap) (v : Visit) (st : VState) (lines : List Str) (c : Check) (p : Pos)
    (hp : v.node.pos = some p) (hwf : v.node.spanOK = true)
    (hsel : ∀ env pr, c.run env = .ok (some pr) → ∀ a b, pr.loc ≠ .abs a b)
    (ev : Event) (f : Finding)
    (hev : ev ∈ runCheck nm { v := v, st := st, ctx := ⟨v.node.line?, v.node.col?, linerange v.node v.sib⟩, lines := lines } c)
    (hf : ev = .finding f ∨ ev = .nosec f ∨ ev = .skipped f) :
    f.line ∈ f.range ∧ f.range = rangeList p.line p.endLine := by
  have hr := (range_is_construct_span v.node v.sib p hp).1
  have hspan : p.line ≤ p.endLine ∧ ∀ d ∈ v.node.descendants, ∀ q, d.pos = some q → p.line ≤ q.line ∧ q.line ≤ p.endLine := by
    unfold Node.spanOK at hwf
    simp only [hp, Bool.and_eq_true, decide_eq_true_eq, List.all_eq_true] at hwf
    refine ⟨hwf.1, fun d hd q hq => ?_⟩
    have := hwf.2 d hd
    simpa [hq] using this
  unfold runCheck at hev
  generalize hE : ({ v := v, st := st, ctx := ⟨v.node.line?, v.node.col?, linerange v.node v.sib⟩, lines := lines } : Env) = env at hev
  cases hrun : c.run (env.forCheck c) with
  | error x => simp [hrun] at hev; subst hev; rcases hf with h | h | h <;> cases h
  | ok o =>
    cases o with
    | none => simp [hrun] at hev
    | some pr =>
      have hna := hsel _ pr hrun
      simp only [hrun] at hev
      have hvv : env.v = v := by rw [← hE]
      have hctx : env.ctx = ⟨v.node.line?, v.node.col?, linerange v.node v.sib⟩ := by rw [← hE]
      cases hem : emit nm env.ctx (fillId c (pr.resolve env.v)) with
      | error x => simp [hem] at hev; subst hev; rcases hf with h | h | h <;> cases h
      | ok ev' =>
        simp only [hem, List.mem_singleton] at hev
        subst hev
        rw [emit_eq] at hem
        cases hloc : resolveLoc (fillId c (pr.resolve env.v)) env.ctx with
        | none => simp [hloc] at hem
        | some lc =>
          obtain ⟨l, col⟩ := lc
          simp only [hloc] at hem
          -- whatever branch: the event carries mkFinding … l col
          have hfm : f = mkFinding (fillId c (pr.resolve env.v)) env.ctx l col := by
            cases hn : nosecsFor nm (fillId c (pr.resolve env.v)) env.ctx with
            | none => simp only [hn] at hem; cases hem; rcases hf with h | h | h <;> cases h; rfl
            | some s =>
              cases s with
              | nil => simp only [hn] at hem; cases hem; rcases hf with h | h | h <;> cases h; rfl
              | cons a as =>
                simp only [hn] at hem
                split at hem <;> (cases hem; rcases hf with h | h | h <;> cases h; rfl)
          subst hfm
          have hrg : (fillId c (pr.resolve env.v)).range = none := by
            have h1 : (fillId c (pr.resolve env.v)).range = (pr.resolve env.v).range := by
              unfold fillId; split <;> rfl
            rw [h1]
            unfold PRaw.resolve
            cases hl : pr.loc with
            | abs a b => exact absurd hl (hna a b)
            | _ => rfl
          simp only [mkFinding, hctx, hr, hrg, Option.getD_none]
          refine ⟨?_, trivial⟩
          rw [mem_rangeList]
          -- where does `l` come from?
          have hfl : (fillId c (pr.resolve env.v)).lineno = (pr.resolve env.v).lineno := by
            unfold fillId; split <;> rfl
          rcases resolveLoc_some hloc with hraw | ⟨hraw, hcl⟩
          · rw [hfl, hvv] at hraw
            rcases resolved_line_source v pr l hraw hna with h | ⟨d, hd, hdl⟩
            · simp [Node.line?, hp] at h; omega
            · cases hq : d.pos with
              | none => simp [Node.line?, hq] at hdl
              | some q =>
                have := hspan.2 d hd q hq
                simp [Node.line?, hq] at hdl
                omega
          · rw [hctx] at hcl
            simp [Node.line?, hp] at hcl
            omega

/-- **String findings**: a string constant is checked with its *parent's* range; when the parent is a
positioned, well-formed construct the string's own line lies in that range -/
theorem str_line_in_parent_range (par n : Node) (p q : Pos) (hp : par.pos = some p) (hwf : par.spanOK = true)
    (hn : n ∈ par.descendants) (hq : n.pos = some q) :
    q.line ∈ linerange par none := by
  rw [(range_is_construct_span par none p hp).1, mem_rangeList]
  unfold Node.spanOK at hwf
  simp only [hp, Bool.and_eq_true, decide_eq_true_eq, List.all_eq_true] at hwf
  have := hwf.2 n hn
  simpa [hq] using this

/-! ## The code excerpt (`Issue.get_code`) -/

/-- **The excerpt window contains the flagged line** (`lmin ≤ line < lmax`) whenever the line is a
real line and the range is non-empty, for every requested context size (also `-n 0` and negatives) -/
theorem excerpt_contains_line (lineno rangeLen : Nat) (n : Int) (h1 : 1 ≤ lineno) (hr : 1 ≤ rangeLen) :
    Bandit.Format.lmin lineno n ≤ lineno ∧ lineno < Bandit.Format.lmax lineno rangeLen n := by
  unfold Bandit.Format.lmax Bandit.Format.lmin
  have he : 1 ≤ Bandit.Format.effLines n := by unfold Bandit.Format.effLines; omega
  omega

/-- **At most the requested context**: the window holds `len(range) + max(n,1) - 1` line numbers, and
the excerpt has at most that many lines (fewer at the end of the file) -/
theorem excerpt_bound (file : List Str) (lineno rangeLen : Nat) (n : Int) (tabbed : Bool) :
    Bandit.Format.lmax lineno rangeLen n - Bandit.Format.lmin lineno n = rangeLen + Bandit.Format.effLines n - 1 ∧
    (Bandit.Format.getCodeLines file lineno rangeLen n tabbed).length ≤ rangeLen + Bandit.Format.effLines n - 1 := by
  have hw : Bandit.Format.lmax lineno rangeLen n - Bandit.Format.lmin lineno n = rangeLen + Bandit.Format.effLines n - 1 := by
    unfold Bandit.Format.lmax; omega
  refine ⟨hw, ?_⟩
  unfold Bandit.Format.getCodeLines
  rw [hw]
  generalize rangeLen + Bandit.Format.effLines n - 1 = k
  generalize Bandit.Format.lmin lineno n = l
  induction k generalizing l with
  | zero => simp [Bandit.Format.codeLines]
  | succ k ih =>
    simp only [Bandit.Format.codeLines]
    split
    · simp
    · simp only [List.length_cons]
      have := ih (l + 1)
      omega

end Props.C10
