import Bandit.Lines
import Bandit.Proofs.Loc
import Bandit.Proofs.Nosec
import Bandit.Format
import Bandit.Proofs.Renum
import Bandit.Proofs.RelLoc
import Bandit.Proofs.PosInv
import Bandit.Proofs.TrojanShift
/-!
# C10 — Reported locations and excerpts point at the flagged code
-/
set_option linter.unusedSimpArgs false
namespace Props.C10
open Bandit

/-- **A range is a contiguous ascending run**: its `i`-th element is `lo + i` -/
theorem range_contiguous_ascending (lo hi i : Nat) (h : i < (rangeList lo hi).length) :
    (rangeList lo hi)[i] = lo + i ∧ (rangeList lo hi).length = hi + 1 - lo :=
  ⟨rangeList_getElem lo hi i h, rangeList_length lo hi⟩

/-- the range of a positioned construct is exactly its physical lines -/
theorem range_is_construct_span (n : Node) (sib : Option Node) (p : Pos) (hp : n.pos = some p) :
    linerange n sib = rangeList p.line p.endLine ∧ ∀ l, l ∈ linerange n sib ↔ p.line ≤ l ∧ l ≤ p.endLine := by
  have : linerange n sib = rangeList p.line p.endLine := by simp [linerange, hp]
  exact ⟨this, fun l => by rw [this]; exact mem_rangeList⟩

/-- the keyword line a `.kw` selector resolves to is the first line of a node below the call -/
theorem kwLine_desc (n : Node) (name : String) (l : Nat) (h : kwLine n name = some l) :
    ∃ d ∈ n.descendants, d.line? = some l := by
  unfold kwLine at h
  cases hc : n.asCall? with
  | none => simp [hc] at h
  | some c =>
    simp only [hc] at h
    have hkw : c.keywords = n.kidList "keywords" := by
      unfold Node.asCall? at hc
      split at hc
      · cases hf : n.kid? "func" with
        | none => simp [hf] at hc
        | some f => simp [hf] at hc; rw [← hc]
      · cases hc
    unfold CallView.kwLineno at h
    cases hfind : c.keywords.find? (fun k => CallView.kwName k == some name.toList) with
    | none => simp [hfind] at h
    | some k =>
      simp only [hfind] at h
      have hk : k ∈ n.kidList "keywords" := hkw ▸ List.mem_of_find?_eq_some hfind
      cases hv : CallView.kwValue k with
      | none => simp [hv] at h
      | some val =>
        simp only [hv, Option.bind_some] at h
        exact ⟨val, kidList_kid?_desc hk hv, h⟩

/-- the line a raw result resolves to (when the check supplies one) belongs to the visited node or
to a node below it -/
theorem resolved_line_source (v : Visit) (pr : PRaw) (l : Nat) (hl : (pr.resolve v).lineno = some l)
    (hnabs : ∀ a b, pr.loc ≠ .abs a b) :
    v.node.line? = some l ∨ ∃ d ∈ v.node.descendants, d.line? = some l := by
  unfold PRaw.resolve at hl
  cases hloc : pr.loc with
  | ctx => simp [hloc] at hl
  | node => simp [hloc] at hl; exact Or.inl hl
  | kw names =>
    simp only [hloc] at hl
    obtain ⟨name, _, hn⟩ := List.exists_of_findSome?_eq_some hl
    exact Or.inr (kwLine_desc _ _ _ hn)
  | abs a b => exact absurd hloc (hnabs a b)

/-- **The reported line lies inside the reported range.**  For every check that locates its finding
by a selector (context default, the node's own line, or a keyword's line — every check except the
file-level one) on a positioned node whose span is well-formed, a reported or withheld finding's line
is one of the lines of its range, and the range is the node's span. -/
theorem line_in_range (nm : NosecMap) (v : Visit) (st : VState) (lines : List Str) (c : Check) (p : Pos)
    (hp : v.node.pos = some p) (hwf : v.node.spanOK = true)
    (hsel : ∀ env pr, c.run env = .ok (some pr) → ∀ a b, pr.loc ≠ .abs a b)
    (ev : Event) (f : Finding)
    (hev : ev ∈ runCheck nm { v := v, st := st, ctx := ⟨v.node.line?, v.node.col?, linerange v.node v.sib⟩, lines := lines } c)
    (hf : ev = .finding f ∨ ev = .nosec f ∨ ev = .skipped f) :
    f.line ∈ f.range ∧ f.range = rangeList p.line p.endLine := by
  have hr := (range_is_construct_span v.node v.sib p hp).1
  have hspan : p.line ≤ p.endLine ∧ ∀ d ∈ v.node.descendants, ∀ q, d.pos = some q → p.line ≤ q.line ∧ q.line ≤ p.endLine := by
    unfold Node.spanOK at hwf
    simp only [hp, Bool.and_eq_true, decide_eq_true_eq, List.all_eq_true] at hwf
    refine ⟨hwf.1, fun d hd q hq => ?_⟩
    have := hwf.2 d hd
    simpa [hq] using this
  unfold runCheck at hev
  generalize hE : ({ v := v, st := st, ctx := ⟨v.node.line?, v.node.col?, linerange v.node v.sib⟩, lines := lines } : Env) = env at hev
  cases hrun : c.run (env.forCheck c) with
  | error x => simp [hrun] at hev; subst hev; rcases hf with h | h | h <;> cases h
  | ok o =>
    cases o with
    | none => simp [hrun] at hev
    | some pr =>
      have hna := hsel _ pr hrun
      simp only [hrun] at hev
      have hvv : env.v = v := by rw [← hE]
      have hctx : env.ctx = ⟨v.node.line?, v.node.col?, linerange v.node v.sib⟩ := by rw [← hE]
      cases hem : emit nm env.ctx (fillId c (pr.resolve env.v)) with
      | error x => simp [hem] at hev; subst hev; rcases hf with h | h | h <;> cases h
      | ok ev' =>
        simp only [hem, List.mem_singleton] at hev
        subst hev
        rw [emit_eq] at hem
        cases hloc : resolveLoc (fillId c (pr.resolve env.v)) env.ctx with
        | none => simp [hloc] at hem
        | some lc =>
          obtain ⟨l, col⟩ := lc
          simp only [hloc] at hem
          -- whatever branch: the event carries mkFinding … l col
          have hfm : f = mkFinding (fillId c (pr.resolve env.v)) env.ctx l col := by
            cases hn : nosecsFor nm (fillId c (pr.resolve env.v)) env.ctx with
            | none => simp only [hn] at hem; cases hem; rcases hf with h | h | h <;> cases h; rfl
            | some s =>
              cases s with
              | nil => simp only [hn] at hem; cases hem; rcases hf with h | h | h <;> cases h; rfl
              | cons a as =>
                simp only [hn] at hem
                split at hem <;> (cases hem; rcases hf with h | h | h <;> cases h; rfl)
          subst hfm
          have hrg : (fillId c (pr.resolve env.v)).range = none := by
            have h1 : (fillId c (pr.resolve env.v)).range = (pr.resolve env.v).range := by
              unfold fillId; split <;> rfl
            rw [h1]
            unfold PRaw.resolve
            cases hl : pr.loc with
            | abs a b => exact absurd hl (hna a b)
            | _ => rfl
          simp only [mkFinding, hctx, hr, hrg, Option.getD_none]
          refine ⟨?_, trivial⟩
          rw [mem_rangeList]
          -- where does `l` come from?
          have hfl : (fillId c (pr.resolve env.v)).lineno = (pr.resolve env.v).lineno := by
            unfold fillId; split <;> rfl
          rcases resolveLoc_some hloc with hraw | ⟨hraw, hcl⟩
          · rw [hfl, hvv] at hraw
            rcases resolved_line_source v pr l hraw hna with h | ⟨d, hd, hdl⟩
            · simp [Node.line?, hp] at h; omega
            · cases hq : d.pos with
              | none => simp [Node.line?, hq] at hdl
              | some q =>
                have := hspan.2 d hd q hq
                simp [Node.line?, hq] at hdl
                omega
          · rw [hctx] at hcl
            simp [Node.line?, hp] at hcl
            omega

/-- **String findings**: a string constant is checked with its *parent's* range; when the parent is a
positioned, well-formed construct the string's own line lies in that range -/
theorem str_line_in_parent_range (par n : Node) (p q : Pos) (hp : par.pos = some p) (hwf : par.spanOK = true)
    (hn : n ∈ par.descendants) (hq : n.pos = some q) :
    q.line ∈ linerange par none := by
  rw [(range_is_construct_span par none p hp).1, mem_rangeList]
  unfold Node.spanOK at hwf
  simp only [hp, Bool.and_eq_true, decide_eq_true_eq, List.all_eq_true] at hwf
  have := hwf.2 n hn
  simpa [hq] using this

/-! ## The code excerpt (`Issue.get_code`) -/

/-- **The excerpt window contains the flagged line** (`lmin ≤ line < lmax`) whenever the line is a
real line and the range is non-empty, for every requested context size (also `-n 0` and negatives) -/
theorem excerpt_contains_line (lineno rangeLen : Nat) (n : Int) (h1 : 1 ≤ lineno) (hr : 1 ≤ rangeLen) :
    Bandit.Format.lmin lineno n ≤ lineno ∧ lineno < Bandit.Format.lmax lineno rangeLen n := by
  unfold Bandit.Format.lmax Bandit.Format.lmin
  have he : 1 ≤ Bandit.Format.effLines n := by unfold Bandit.Format.effLines; omega
  omega

/-- **At most the requested context**: the window holds `len(range) + max(n,1) - 1` line numbers, and
the excerpt has at most that many lines (fewer at the end of the file) -/
theorem excerpt_bound (file : List Str) (lineno rangeLen : Nat) (n : Int) (tabbed : Bool) :
    Bandit.Format.lmax lineno rangeLen n - Bandit.Format.lmin lineno n = rangeLen + Bandit.Format.effLines n - 1 ∧
    (Bandit.Format.getCodeLines file lineno rangeLen n tabbed).length ≤ rangeLen + Bandit.Format.effLines n - 1 := by
  have hw : Bandit.Format.lmax lineno rangeLen n - Bandit.Format.lmin lineno n = rangeLen + Bandit.Format.effLines n - 1 := by
    unfold Bandit.Format.lmax; omega
  refine ⟨hw, ?_⟩
  unfold Bandit.Format.getCodeLines
  rw [hw]
  generalize rangeLen + Bandit.Format.effLines n - 1 = k
  generalize Bandit.Format.lmin lineno n = l
  induction k generalizing l with
  | zero => simp [Bandit.Format.codeLines]
  | succ k ih =>
    simp only [Bandit.Format.codeLines]
    split
    · simp
    · simp only [List.length_cons]
      have := ih (l + 1)
      omega

/-! ## Equivariance: renumbering the lines renumbers the findings and changes nothing else -/

/-- the well-formedness facts of a CPython 3.12 tree the theorem uses (asserted by `astser.check_wf` on
every tree the harness serialises): an unpositioned list member has unpositioned list-siblings, and
there is no node of the pseudo-kind `File` -/
structure TreeWF (root : Node) : Prop where
  sib : ∀ v ∈ visits root, v.node.pos = none → v.sib.bind Node.line? = none
  noFile : ∀ v ∈ visits root, v.node.kind ≠ "File".toList

/-- a check the theorem covers: position-blind or position-invariant and locating relative to the node
(`CheckOK`), or a file-level check (those run on the `File` pseudo-node only, never during the traversal) -/
def CheckCovered (c : Check) : Prop := CheckOK c ∨ c.kinds = ["File".toList]

/-- `[0, 1]` fallback ranges stay `[0, 1]`: either `ρ` fixes 0 and 1 (nothing is inserted before line 2),
or no check is registered for the kind of any node that has neither a position nor a positioned node
below it (true of bandit's checks: such nodes are `Load`, `Store`, operators, empty `arguments`) -/
def FallbackOK (ρ : Nat → Nat) (checks : List Check) (root : Node) : Prop :=
  (ρ 0 = 0 ∧ ρ 1 = 1) ∨
    ∀ v ∈ visits root, (v.node.defaulted ∨ ∃ p, v.anc.head? = some p ∧ p.defaulted) →
      ∀ kc, dispatch v = some kc → checksFor checks kc.1 = []

theorem visitFine_of {ρ : Nat → Nat} {checks : List Check} {root : Node} (hwf : TreeWF root)
    (hc : ∀ c ∈ checks, CheckCovered c) (hfb : FallbackOK ρ checks root) :
    ∀ v ∈ visits root, VisitFine ρ checks v := by
  intro v hv
  have hchecks : ∀ kc, dispatch v = some kc → ∀ c ∈ checksFor checks kc.1, CheckOK c := by
    intro kc hd c hcm
    have hcm' := List.mem_filter.mp hcm
    rcases hc c hcm'.1 with hok | hfile
    · exact hok
    · exfalso
      have hk : kc.1 = "File".toList := by
        have := hcm'.2
        rw [hfile] at this
        simpa using this
      rcases dispatch_kind_cases hd with h | h | h | h
      · exact hwf.noFile v hv (by rw [← h, hk])
      · rw [hk] at h; revert h; decide
      · rw [hk] at h; revert h; decide
      · rw [hk] at h; revert h; decide
  rcases hfb with h01 | hno
  · exact Or.inl ⟨⟨hwf.sib v hv, fun _ => h01, fun _ _ _ => h01⟩, hchecks⟩
  · by_cases hd : v.node.defaulted ∨ ∃ p, v.anc.head? = some p ∧ p.defaulted
    · exact Or.inr (hno v hv hd)
    · refine Or.inl ⟨⟨hwf.sib v hv, fun h => absurd (Or.inl h) hd, fun p hp hpd => absurd (Or.inr ⟨p, hp, hpd⟩) hd⟩, hchecks⟩

/-- **Equivariance.**  For every strictly monotone renumbering `ρ` of the lines of a file — the tree's
positions moved along `ρ`, the nosec comments moved along `ρ`, the new lines outside the image of `ρ`
carrying no nosec comment — the traversal yields the *same* events (findings, findings withheld by
nosec, skipped tests, crashes, in the same order, with the same test, severity, confidence and column)
with every line moved along `ρ` and every range mapped as the interval between its moved end points.
Nothing else changes.  Unbounded in the tree, the checks (any list of covered checks), the comments
and `ρ`. -/
theorem equivariant (ρ : Nat → Nat) (hρ : StrictMonoNat ρ) (checks : List Check) (hc : ∀ c ∈ checks, CheckCovered c)
    (root : Node) (hwf : TreeWF root) (hfb : FallbackOK ρ checks root)
    (nm nm' : NosecMap) (hm : NosecMoved ρ nm nm') (lines lines' : List Str) :
    scanVisits checks nm' lines' {} (visits (root.renum ρ))
      = (scanVisits checks nm lines {} (visits root)).map (Event.renum ρ) := by
  rw [visits_renum]
  have := scanVisits_renum hρ hm checks lines {} (visits root) (visitFine_of hwf hc hfb)
  rw [← this]
  exact scanVisits_lines_irrelevant checks nm' lines' lines {} _

/-- … and so do the reported findings, the withheld ones and the counters -/
theorem equivariant_findings (ρ : Nat → Nat) (hρ : StrictMonoNat ρ) (checks : List Check) (hc : ∀ c ∈ checks, CheckCovered c)
    (root : Node) (hwf : TreeWF root) (hfb : FallbackOK ρ checks root)
    (nm nm' : NosecMap) (hm : NosecMoved ρ nm nm') (lines lines' : List Str) :
    let es' := scanVisits checks nm' lines' {} (visits (root.renum ρ))
    let es := scanVisits checks nm lines {} (visits root)
    findingsOf es' = (findingsOf es).map (Finding.renum ρ) ∧ withheldOf es' = (withheldOf es).map (Finding.renum ρ) ∧
      nosecCount es' = nosecCount es ∧ skippedCount es' = skippedCount es ∧ crashesOf es' = crashesOf es := by
  intro es' es
  have h : es' = es.map (Event.renum ρ) := equivariant ρ hρ checks hc root hwf hfb nm nm' hm lines lines'
  rw [h]
  refine ⟨?_, ?_, ?_, ?_, ?_⟩
  · induction es with
    | nil => rfl
    | cons e es ih => cases e <;> simp_all [findingsOf, Event.renum, List.filterMap_cons]
  · induction es with
    | nil => rfl
    | cons e es ih => cases e <;> simp_all [withheldOf, Event.renum, List.filterMap_cons]
  · induction es with
    | nil => rfl
    | cons e es ih => cases e <;> simp_all [nosecCount, Event.renum, List.filter_cons]
  · induction es with
    | nil => rfl
    | cons e es ih => cases e <;> simp_all [skippedCount, Event.renum, List.filter_cons]
  · induction es with
    | nil => rfl
    | cons e es ih => cases e <;> simp_all [crashesOf, Event.renum, List.filterMap_cons]

/-! ### Inserting lines -/

/-- what inserting `k` lines before line `L` does to a finding whose range is the span `lo..hi` -/
theorem insert_finding (L k : Nat) (f : Finding) (lo hi : Nat) (hr : f.range = rangeList lo hi) :
    (f.renum (insertLines L k)).line = (if f.line < L then f.line else f.line + k) ∧
    (f.renum (insertLines L k)).range = rangeList (if lo < L then lo else lo + k) (if hi < L then hi else hi + k) ∧
    (f.renum (insertLines L k)).col = f.col ∧ (f.renum (insertLines L k)).id = f.id ∧
    (f.renum (insertLines L k)).sev = f.sev ∧ (f.renum (insertLines L k)).conf = f.conf := by
  refine ⟨rfl, ?_, rfl, rfl, rfl, rfl⟩
  simp only [Finding.renum, hr, rangeMap_rangeList (insertLines_strictMono L k)]
  rfl

/-- a finding that lies entirely above the insertion point is untouched -/
theorem insert_above_unchanged (L k : Nat) (f : Finding) (lo hi : Nat) (hr : f.range = rangeList lo hi)
    (hl : f.line < L) (hh : hi < L) (hlo : lo ≤ hi) : f.renum (insertLines L k) = f := by
  obtain ⟨h1, h2, _⟩ := insert_finding L k f lo hi hr
  have hlo' : lo < L := by omega
  cases f with
  | mk id sev conf line range col =>
    simp only [Finding.renum, Finding.mk.injEq, true_and, and_true] at h1 h2 ⊢
    simp only at hl hr
    refine ⟨by rw [h1]; simp [hl], ?_⟩
    rw [h2, hr]; simp [hlo', hh]

/-- a finding that lies entirely at or below the insertion point moves down by exactly `k` lines and
keeps its length -/
theorem insert_below_shifts (L k : Nat) (f : Finding) (lo hi : Nat) (hr : f.range = rangeList lo hi)
    (hl : L ≤ f.line) (hlo : L ≤ lo) (hle : lo ≤ hi) :
    (f.renum (insertLines L k)).line = f.line + k ∧ (f.renum (insertLines L k)).range = f.range.map (· + k) := by
  obtain ⟨h1, h2, _⟩ := insert_finding L k f lo hi hr
  refine ⟨by rw [h1]; simp [Nat.not_lt.mpr hl], ?_⟩
  rw [h2, hr]
  have a : ¬ lo < L := by omega
  have b : ¬ hi < L := by omega
  simp only [a, b, if_false]
  apply List.ext_getElem
  · simp [rangeList_length]; omega
  · intro i h1 h2
    simp only [List.getElem_map, rangeList_getElem]; omega

/-- a construct that spans the insertion point keeps its first line and grows by exactly `k` lines -/
theorem insert_inside_grows (L k : Nat) (f : Finding) (lo hi : Nat) (hr : f.range = rangeList lo hi)
    (hlo : lo < L) (hhi : L ≤ hi) :
    (f.renum (insertLines L k)).range = rangeList lo (hi + k) ∧
    ((f.renum (insertLines L k)).range).length = f.range.length + k := by
  obtain ⟨_, h2, _⟩ := insert_finding L k f lo hi hr
  have b : ¬ hi < L := by omega
  rw [h2, hr]
  simp only [hlo, b, if_true, if_false, rangeList_length, true_and]
  omega

/-- **Inserting blank or ordinary comment lines.**  Insert `k` lines before line `L ≥ 2` (for `L = 1` use
`equivariant` with the second alternative of `FallbackOK`): the positions of the tree move along
`insertLines L k`, the inserted lines carry no nosec comment.  Then the edited file yields exactly the
events of the original with every location moved along `insertLines L k` — by `insert_finding`: lines
`≥ L` shifted by `k`, lines `< L` unchanged, ranges as intervals — and nothing else changes. -/
theorem insert_shifts (L k : Nat) (hL : 2 ≤ L) (checks : List Check) (hc : ∀ c ∈ checks, CheckCovered c)
    (root : Node) (hwf : TreeWF root) (nm nm' : NosecMap) (hm : NosecMoved (insertLines L k) nm nm') (lines lines' : List Str) :
    scanVisits checks nm' lines' {} (visits (root.renum (insertLines L k)))
      = (scanVisits checks nm lines {} (visits root)).map (Event.renum (insertLines L k)) := by
  apply equivariant _ (insertLines_strictMono L k) checks hc root hwf _ nm nm' hm
  left
  constructor
  · simp only [insertLines]; split <;> omega
  · simp only [insertLines]; split <;> omega

/-- the nosec map of the edited file: every comment moved with its line, the inserted lines ordinary
(`none`) comments or blank — the hypothesis `NosecMoved` is satisfiable for every map -/
theorem nosecMoved_exists (ρ : Nat → Nat) (hρ : StrictMonoNat ρ) (nm : NosecMap) :
    NosecMoved ρ nm (nm.map (fun e => (ρ e.1, e.2))) := by
  have hget : ∀ (nm : NosecMap) (x : Nat),
      NosecMap.get (nm.map (fun e => (ρ e.1, e.2))) x = (nm.find? (fun e => ρ e.1 == x)).bind (·.2) := by
    intro nm x
    simp only [NosecMap.get, List.find?_map]
    have hp : ((fun e : Nat × Option (List Str) => e.1 == x) ∘ fun e : Nat × Option (List Str) => (ρ e.1, e.2)) = fun e : Nat × Option (List Str) => ρ e.1 == x := rfl
    rw [hp]
    cases nm.find? (fun e => ρ e.1 == x) with
    | none => rfl
    | some e => rfl
  constructor
  · intro l
    rw [hget]
    simp only [NosecMap.get]
    have hp : (fun e : Nat × Option (List Str) => ρ e.1 == ρ l) = fun e => e.1 == l := by
      funext e
      by_cases he : e.1 = l
      · simp [he]
      · have : ρ e.1 ≠ ρ l := fun h => he (hρ.inj h)
        rw [beq_eq_false_iff_ne.mpr this, beq_eq_false_iff_ne.mpr he]
    rw [hp]
  · intro x hx
    rw [hget]
    have : nm.find? (fun e => ρ e.1 == x) = none := by
      rw [List.find?_eq_none]
      intro e _
      simpa using hx e.1
    rw [this]; rfl

/-! ### The hypotheses are satisfiable, and the real checks satisfy them -/

/-- the checks of the core plugin families and the blacklist are covered by `equivariant`
(every check of `miscChecks` and `shellChecks` and the blacklist wrapper: position-blind, locating
relative to the node).  Partial instance, kept for reference: the full test set is `all_checks_covered`
below. -/
theorem core_checks_covered_partial (pc : PluginCfg) (fn : Str) (cfg : Plugins.ShellCfg) (t : BlTables) :
    ∀ c ∈ Plugins.miscChecks pc fn ++ Plugins.shellChecks cfg ++ (blacklistCheck t).toList, CheckCovered c := by
  intro c hc
  simp only [List.mem_append] at hc
  rcases hc with (h | h) | h
  · exact Or.inl (miscChecks_ok pc fn c h)
  · exact Or.inl (shellChecks_ok cfg c h)
  · cases hb : blacklistCheck t with
    | none => rw [hb] at h; cases h
    | some bc =>
      rw [hb] at h
      simp only [Option.toList, List.mem_singleton] at h
      subst h
      exact Or.inl (blacklistCheck_ok hb)

/-- every modelled plugin check is covered: all AST checks are `CheckOK` — position-blind and locating
relative to the node, except B608 (spans as node identity) and B703 (order of line numbers), which are
shown invariant under every strictly monotone renumbering (`Bandit.Proofs.PosInv`) — and B613 is the one
file-level check -/
theorem pluginChecks_covered (pc : PluginCfg) (fn : Str) : ∀ c ∈ pluginChecks pc fn, CheckCovered c := by
  intro c hc
  simp only [pluginChecks, List.mem_append] at hc
  rcases hc with (((h | h) | h) | h) | h
  · exact Or.inl (miscChecks_ok pc fn c h)
  · exact Or.inl (shellChecks_ok _ c h)
  · exact Or.inl (cryptoChecks_ok _ pc c h)
  · simp only [Plugins.trojanChecks, List.mem_singleton] at h
    subst h
    exact Or.inr rfl
  · exact Or.inl (injectChecks_ok _ pc c h)

/-- **The real test set meets the hypothesis of `equivariant`**, for every profile filter `keep`, every
per-plugin configuration and every blacklist table: the filtered plugin checks and the blacklist wrapper
over the filtered tables -/
theorem all_checks_covered (pc : PluginCfg) (fn : Str) (t : BlTables) (keep : Str → Bool) :
    ∀ c ∈ testSet pc fn t keep, CheckCovered c := by
  intro c hc
  simp only [testSet, List.mem_append] at hc
  rcases hc with h | h
  · exact pluginChecks_covered pc fn c (List.mem_filter.mp h).1
  · cases hb : blacklistCheck (t.restrict keep) with
    | none => rw [hb] at h; cases h
    | some bc =>
      rw [hb] at h
      simp only [Option.toList, List.mem_singleton] at h
      subst h
      exact Or.inl (blacklistCheck_ok hb)

/-- **Equivariance for bandit's own checks** — `equivariant` with its check hypothesis discharged: for
every per-plugin configuration, every blacklist table and every profile filter, the whole test set
(all 41 plugin checks incl. B608/B703, and the blacklist wrapper) yields, on the renumbered tree, the
events of the original with every location moved along `ρ`. -/
theorem equivariant_bandit (ρ : Nat → Nat) (hρ : StrictMonoNat ρ) (pc : PluginCfg) (fn : Str) (t : BlTables) (keep : Str → Bool)
    (root : Node) (hwf : TreeWF root) (hfb : FallbackOK ρ (testSet pc fn t keep) root)
    (nm nm' : NosecMap) (hm : NosecMoved ρ nm nm') (lines lines' : List Str) :
    scanVisits (testSet pc fn t keep) nm' lines' {} (visits (root.renum ρ))
      = (scanVisits (testSet pc fn t keep) nm lines {} (visits root)).map (Event.renum ρ) :=
  equivariant ρ hρ _ (all_checks_covered pc fn t keep) root hwf hfb nm nm' hm lines lines'

/-- **The file-level finding (B613) under insertion**: inserting lines that contain no bidirectional
control character between `pre` and `post` leaves a finding inside `pre` where it is and moves a finding
inside `post` down by exactly the number of inserted lines; column and character are unchanged and no
finding appears or disappears. -/
theorem b613_insert_shifts (table : List Char) (pre ins post : List Str)
    (hclean : ∀ l ∈ ins, Plugins.firstTableChar table l = none) :
    Plugins.scanBidi table 1 (pre ++ ins ++ post) =
      match Plugins.scanBidi table 1 pre with
      | some r => some r
      | none => (Plugins.scanBidi table (1 + pre.length) post).map (fun r => (r.1 + ins.length, r.2)) :=
  scanBidi_insert table 1 pre ins post hclean

/-- … and at the level of the *text*: inserting an empty line after any line end of the decoded text inserts exactly the line `"\n"` there
(`uniLines_insert_blank`), so a B613 finding above the insertion stays and one below moves down by one — whatever mixture of `\n`, `\r\n`, `\r`
the text uses before and after -/
theorem b613_blank_line_in_text_shifts (table : List Char) (a b : LStr) (hn : '\n' ∉ table) :
    Plugins.scanBidi table 1 (uniLines ((a ++ ['\n']) ++ '\n' :: b)) =
      match Plugins.scanBidi table 1 (uniLines (a ++ ['\n'])) with
      | some r => some r
      | none => (Plugins.scanBidi table (1 + (uniLines (a ++ ['\n'])).length) (uniLines b)).map (fun r => (r.1 + 1, r.2)) := by
  rw [(uniLines_insert_blank a b).1]
  have := b613_insert_shifts table (uniLines (a ++ ['\n'])) [['\n']] (uniLines b) (by
    intro l hl
    simp only [List.mem_singleton] at hl
    subst hl
    unfold Plugins.firstTableChar
    rw [List.findSome?_eq_none_iff]
    intro ch hch
    have hne : ch ≠ '\n' := fun e => hn (e ▸ hch)
    have : ['\n'].idxOf? ch = none := by rw [List.idxOf?_eq_none_iff]; simpa using hne
    simp [this])
  simpa using this

/-- `x = 1` on line 1 (not in the tree below), a blank line 2, `exec(\n  code)` on lines 3–4 -/
def exTree : Node :=
  .mk "Module".toList none [] [("body".toList, true, [
    Node.mk "Expr".toList (some ⟨3, 4, 0, 7⟩) [] [("value".toList, false, [
      Node.mk "Call".toList (some ⟨3, 4, 0, 7⟩) [] [
        ("func".toList, false, [Node.mk "Name".toList (some ⟨3, 3, 0, 4⟩) [("id".toList, Atom.str "exec".toList)] []]),
        ("args".toList, true, [Node.mk "Name".toList (some ⟨4, 4, 2, 6⟩) [("id".toList, Atom.str "code".toList)] []]),
        ("keywords".toList, true, [])]])]])]

def exChecks : List Check := [.plugin "B102" "exec_used" ["Call".toList] Plugins.b102]

/-- non-vacuity: a real tree and a real check meet every hypothesis of `insert_shifts` … -/
example : TreeWF exTree ∧ (∀ c ∈ exChecks, CheckCovered c) ∧
    NosecMoved (insertLines 2 5) [(4, some [])] ([(4, some [])].map (fun e => (insertLines 2 5 e.1, e.2))) :=
  ⟨⟨by decide +kernel, by decide +kernel⟩,
   by intro c hc; simp only [exChecks, List.mem_singleton] at hc; subst hc; exact Or.inl (plugin_ok b102_rel),
   nosecMoved_exists _ (insertLines_strictMono 2 5) _⟩

/-- … and the conclusion is not trivial: the B102 finding at line 3 (range 3–4) is reported at line 8
(range 8–9) after five lines were inserted before line 2 -/
example : findingsOf (scanVisits exChecks [] [] {} (visits exTree)) = [⟨"B102".toList, .medium, .high, 3, [3, 4], 0⟩] ∧
    findingsOf (scanVisits exChecks [] [] {} (visits (exTree.renum (insertLines 2 5)))) = [⟨"B102".toList, .medium, .high, 8, [8, 9], 0⟩] :=
  ⟨by decide +kernel, by decide +kernel⟩

end Props.C10
