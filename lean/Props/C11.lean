import Bandit.Proofs.C11
/-!
# C11 — File discovery honours includes and excludes and loses nothing

Model: `Bandit/Discovery.lean` (`discoverFiles` = `BanditManager.discover_files` over an explicit
filesystem value); spec: `Bandit.Discovery.Spec` (written from the property text).
Only property theorems live here (helper lemmas are in `Bandit/Proofs/{Glob,Discovery}.lean`).

Reading of the property fixed by the spec (narrow where the text is arguable):
* "under an excluded directory / matches an exclude pattern" — *must* be excluded when the pattern
  occupies whole path components (`Spec.underPath`) or `fnmatch`es the path; *must* be scanned only
  when the pattern does not even occur in the path as text (bandit's substring reading, e.g. `-x test`
  also excluding `contest.py`, is tolerated: verdict `either`);
* "name matches an include pattern" — demanded only where the file-name reading and bandit's
  whole-path reading agree; `include_name_reading_agrees` shows they always agree for patterns of the
  documented shape `*.ext`.
-/
namespace Props.C11
open Bandit Bandit.Discovery

/-! ### The glob matcher (`fnmatch`), which both model and spec use -/

/-- `*` matches every path. -/
theorem glob_star_matches_everything (s : Str) : Glob.fnmatch s "*".toList = true :=
  Glob.fnmatch_star s

/-- A pattern without `*`, `?`, `[` matches exactly itself. -/
theorem glob_literal_matches_itself_only {pat : Str} (h : Glob.Literal pat) (s : Str) :
    Glob.fnmatch s pat = true ↔ s = pat :=
  Glob.fnmatch_literal h s

/-- `*.py` matches exactly the paths ending in `.py` (likewise `*.pyw`, and any `*<literal>`). -/
theorem glob_star_py_iff_suffix (s : Str) : Glob.fnmatch s "*.py".toList = true ↔ ".py".toList <:+ s :=
  Glob.fnmatch_star_literal (lit := ".py".toList) (by decide) s

theorem glob_star_literal_iff_suffix {lit : Str} (h : Glob.Literal lit) (s : Str) :
    Glob.fnmatch s ('*' :: lit) = true ↔ lit <:+ s :=
  Glob.fnmatch_star_literal h s

/-- For include patterns `*<literal without '/'>` (the default `*.py`, `*.pyw` and every documented
use) "the file's *name* matches" and bandit's "the *path* matches" are the same condition. -/
theorem include_name_reading_agrees {inc : List Str} (h : ∀ g ∈ inc, StarSuffix g) (path : Str) :
    Glob.matchesGlobList (Spec.nameOf path) inc = Glob.matchesGlobList path inc :=
  matchesGlobList_name_eq_path h

/-! ### Partition: walked = files ⊎ excluded -/

/-- **One directory walk**, for every tree, spelling of the directory and pattern lists: every
walked file is in exactly one of the two lists, and the lists contain nothing else. -/
theorem walk_partition (fs : Fs) (top : Str) (inc exc : List Str) (p : Str) :
    (p ∈ walkedPaths fs top ↔
      (p ∈ (getFilesFromDir fs top inc exc).1 ∨ p ∈ (getFilesFromDir fs top inc exc).2)) ∧
    ¬ (p ∈ (getFilesFromDir fs top inc exc).1 ∧ p ∈ (getFilesFromDir fs top inc exc).2) := by
  rw [mem_getFiles_fst, mem_getFiles_snd]
  constructor
  · constructor
    · intro h
      cases hi : isFileIncluded p inc exc true
      · exact Or.inr ⟨h, rfl⟩
      · exact Or.inl ⟨h, rfl⟩
    · rintro (h | h) <;> exact h.1
  · rintro ⟨⟨_, h1⟩, ⟨_, h2⟩⟩
    rw [h1] at h2; cases h2

/-- **Partition** (`-r`, any number of directory targets, any tree, cwd, config and `-x` string):
`files_list ∪ excluded_files` is exactly the set of walked paths, no path is in both, and neither
list repeats a path. -/
theorem partition (fs : Fs) (cfg : Config) (targets : List Str) (xp : Str)
    (hdirs : ∀ t ∈ targets, isDir fs t = true) :
    (∀ p, (∃ t ∈ targets, p ∈ walkedPaths fs t) ↔
        (p ∈ (discoverFiles fs cfg targets true xp).files ∨
         p ∈ (discoverFiles fs cfg targets true xp).excluded)) ∧
    (∀ p, ¬ (p ∈ (discoverFiles fs cfg targets true xp).files ∧
             p ∈ (discoverFiles fs cfg targets true xp).excluded)) ∧
    (discoverFiles fs cfg targets true xp).files.Nodup ∧
    (discoverFiles fs cfg targets true xp).excluded.Nodup := by
  refine ⟨fun p => ?_, fun p => ?_, sortedSet_nodup _, sortedSet_nodup _⟩
  · rw [mem_files, mem_excluded]
    constructor
    · rintro ⟨t, ht, hp⟩
      cases hi : isFileIncluded p (includedGlobs cfg) (prepareExcludes fs cfg xp) true
      · exact Or.inr ⟨t, ht, (mem_targetExcluded_dir (hdirs t ht)).mpr ⟨hp, hi⟩⟩
      · exact Or.inl ⟨t, ht, (mem_targetFiles_dir (hdirs t ht)).mpr ⟨hp, hi⟩⟩
    · rintro (⟨t, ht, hp⟩ | ⟨t, ht, hp⟩)
      · exact ⟨t, ht, ((mem_targetFiles_dir (hdirs t ht)).mp hp).1⟩
      · exact ⟨t, ht, ((mem_targetExcluded_dir (hdirs t ht)).mp hp).1⟩
  · rw [mem_files, mem_excluded]
    rintro ⟨⟨t, ht, hp⟩, ⟨t', ht', hp'⟩⟩
    have h1 := ((mem_targetFiles_dir (hdirs t ht)).mp hp).2
    have h2 := ((mem_targetExcluded_dir (hdirs t' ht')).mp hp').2
    rw [h1] at h2; cases h2

/-- **Nothing is lost** (mixed targets): with `-r`, every walked file of every directory target and
every explicitly named target is in one of the two lists. -/
theorem partition_exhaustive (fs : Fs) (cfg : Config) (targets : List Str) (xp : Str) :
    (∀ t ∈ targets, isDir fs t = true → ∀ p ∈ walkedPaths fs t,
        p ∈ (discoverFiles fs cfg targets true xp).files ∨
        p ∈ (discoverFiles fs cfg targets true xp).excluded) ∧
    (∀ t ∈ targets, isDir fs t = false →
        explicitSpelling t ∈ (discoverFiles fs cfg targets true xp).files ∨
        t ∈ (discoverFiles fs cfg targets true xp).excluded) := by
  constructor
  · intro t ht hd p hp
    rw [mem_files, mem_excluded]
    cases hi : isFileIncluded p (includedGlobs cfg) (prepareExcludes fs cfg xp) true
    · exact Or.inr ⟨t, ht, (mem_targetExcluded_dir hd).mpr ⟨hp, hi⟩⟩
    · exact Or.inl ⟨t, ht, (mem_targetFiles_dir hd).mpr ⟨hp, hi⟩⟩
  · intro t ht hd
    rw [mem_files, mem_excluded]
    cases hi : isFileIncluded t (includedGlobs cfg) (prepareExcludes fs cfg xp) false
    · exact Or.inr ⟨t, ht, by simp [targetExcluded, hd, hi]⟩
    · exact Or.inl ⟨t, ht, by simp [targetFiles, hd, hi]⟩

/-- **Disjointness, mixed targets**: a path can be in both lists only as the `./`-spelling of an
explicitly named file (the same file reached in two roles, cf. `NEG_same_file_two_spellings`);
walked files of directory targets never are. -/
theorem overlap_only_from_explicit_target (fs : Fs) (cfg : Config) (targets : List Str) (r : Bool)
    (xp s : Str)
    (hf : s ∈ (discoverFiles fs cfg targets r xp).files)
    (he : s ∈ (discoverFiles fs cfg targets r xp).excluded) :
    ∃ t ∈ targets, isDir fs t = false ∧ s = explicitSpelling t := by
  rw [mem_files] at hf
  rw [mem_excluded] at he
  obtain ⟨t, ht, hf⟩ := hf
  obtain ⟨t', ht', he⟩ := he
  cases hd : isDir fs t
  · -- explicit target
    refine ⟨t, ht, hd, ?_⟩
    simp only [targetFiles, hd, Bool.false_eq_true, ↓reduceIte] at hf
    split at hf
    · simpa using hf
    · simp at hf
  · exfalso
    cases r
    · simp [targetFiles, hd] at hf
    · have h1 := ((mem_targetFiles_dir hd).mp hf).2
      cases hd' : isDir fs t'
      · simp only [targetExcluded, hd', Bool.false_eq_true, ↓reduceIte] at he
        split at he
        · simp at he
        · next hne =>
          simp only [List.mem_singleton] at he
          subst he
          exact hne (included_enforce_mono h1)
      · have h2 := ((mem_targetExcluded_dir hd').mp he).2
        rw [h1] at h2; cases h2

/-! ### The predicate: model vs. the property's wording -/

/-- **Predicate = spec, partial.**  Guard `NoEntryIsDir`: no `-x` entry (in particular none of the
default VCS/cache names when `-x` is not given) names an existing directory relative to the working
directory.  Then, for every path, include list, config `exclude_dirs` and `-x` string: a file the
property says must be excluded (no include pattern matches; under an excluded directory /
excluded relative path; matches an exclude glob) is excluded by bandit's predicate, and a file the
property says must be scanned is included (`may`: further patterns the spec lets bandit honour — the
default names when `-x` replaced them; any list). -/
theorem predicate_spec_partial (fs : Fs) (cfg : Config) (xp path : Str) (may : List Str)
    (hG : NoEntryIsDir fs xp = true) :
    (Spec.mustExclude (includedGlobs cfg) (Spec.userExcludes cfg xp) path = true →
      isFileIncluded path (includedGlobs cfg) (prepareExcludes fs cfg xp) true = false) ∧
    (Spec.mustScan (includedGlobs cfg) (Spec.userExcludes cfg xp ++ may) path = true →
      isFileIncluded path (includedGlobs cfg) (prepareExcludes fs cfg xp) true = true) := by
  rw [prepareExcludes_of_guard hG]
  exact ⟨excluded_of_mustExclude, fun h => included_of_mustScan (mustScan_mono h)⟩

/-- The two spec regions never overlap (the verdict is well defined). -/
theorem spec_regions_disjoint (inc exc : List Str) (path : Str) :
    ¬ (Spec.mustExclude inc exc path = true ∧ Spec.mustScan inc exc path = true) := by
  rintro ⟨h1, h2⟩
  have a := excluded_of_mustExclude h1
  have b := included_of_mustScan h2
  rw [a] at b; cases b

/-- What "under an excluded directory" means in the spec: the pattern is non-empty and occupies whole
consecutive components of the path. -/
theorem spec_underPath_meaning (d path : Str) : Spec.underPath d path = true ↔
    d ≠ [] ∧ ∃ u v, path = u ++ d ++ v ∧ (u = [] ∨ u.getLast? = some '/') ∧
      (v = [] ∨ v.head? = some '/') :=
  underPath_iff d path

/-- **Walked files are accounted as the property says, partial** (same guard): with `-r`, for a
directory target `t` and a walked file `p` below it, `mustScan ⇒ p ∈ files_list` and
`mustExclude ⇒ p ∈ excluded_files`, and in the latter case `p` is not scanned when all targets are
directories. -/
theorem walked_scanned_iff_spec_partial (fs : Fs) (cfg : Config) (targets : List Str) (xp t p : Str)
    (may : List Str)
    (hG : NoEntryIsDir fs xp = true) (ht : t ∈ targets) (hd : isDir fs t = true)
    (hp : p ∈ walkedPaths fs t) :
    (Spec.mustScan (includedGlobs cfg) (Spec.userExcludes cfg xp ++ may) p = true →
      p ∈ (discoverFiles fs cfg targets true xp).files) ∧
    (Spec.mustExclude (includedGlobs cfg) (Spec.userExcludes cfg xp) p = true →
      p ∈ (discoverFiles fs cfg targets true xp).excluded ∧
      ((∀ t' ∈ targets, isDir fs t' = true) → p ∉ (discoverFiles fs cfg targets true xp).files)) := by
  have hps := predicate_spec_partial fs cfg xp p may hG
  constructor
  · intro h
    exact mem_files.mpr ⟨t, ht, (mem_targetFiles_dir hd).mpr ⟨hp, hps.2 h⟩⟩
  · intro h
    have hex : p ∈ (discoverFiles fs cfg targets true xp).excluded :=
      mem_excluded.mpr ⟨t, ht, (mem_targetExcluded_dir hd).mpr ⟨hp, hps.1 h⟩⟩
    exact ⟨hex, fun hall hf => (partition fs cfg targets xp hall).2.1 p ⟨hf, hex⟩⟩

/-! ### Explicit files and directories without `-r` -/

/-- **Explicit file, any extension.**  A target that is not a directory and that no exclude pattern
touches is scanned — for *every* include list (so whatever its extension), with or without `-r` —
under the spelling `os.path.join(".", t)`. -/
theorem explicit_any_extension (fs : Fs) (cfg : Config) (targets : List Str) (r : Bool) (xp t : Str)
    (hG : NoEntryIsDir fs xp = true) (ht : t ∈ targets) (hd : isDir fs t = false)
    (hs : Spec.explicitMustScan (Spec.userExcludes cfg xp) t = true) :
    explicitSpelling t ∈ (discoverFiles fs cfg targets r xp).files := by
  rw [mem_files]
  refine ⟨t, ht, ?_⟩
  have := explicit_included_of_mustScan (inc := includedGlobs cfg) hs
  rw [← prepareExcludes_of_guard (fs := fs) hG] at this
  simp [targetFiles, hd, this]

/-- **Explicit file, excluded.**  …and one that is under an excluded directory or matches an exclude
glob is listed as excluded. -/
theorem explicit_excluded (fs : Fs) (cfg : Config) (targets : List Str) (r : Bool) (xp t : Str)
    (hG : NoEntryIsDir fs xp = true) (ht : t ∈ targets) (hd : isDir fs t = false)
    (hs : Spec.explicitMustExclude (Spec.userExcludes cfg xp) t = true) :
    t ∈ (discoverFiles fs cfg targets r xp).excluded := by
  rw [mem_excluded]
  refine ⟨t, ht, ?_⟩
  have := explicit_excluded_of_mustExclude (inc := includedGlobs cfg) hs
  rw [← prepareExcludes_of_guard (fs := fs) hG] at this
  simp [targetExcluded, hd, this]

/-- The spelling of an explicit relative file is `./` + what the user wrote. -/
theorem explicit_spelling_relative (t : Str) (h1 : t ≠ ['-']) (h2 : t.head? ≠ some '/') :
    explicitSpelling t = '.' :: '/' :: t := by
  simp [explicitSpelling, h1, join, h2]

/-- **No descent without `-r`.**  Without `-r` nothing that is listed comes from a directory
target: every listed path is (the spelling of) a target that is not a directory. -/
theorem no_descent_without_r (fs : Fs) (cfg : Config) (targets : List Str) (xp s : Str) :
    (s ∈ (discoverFiles fs cfg targets false xp).files →
      ∃ t ∈ targets, isDir fs t = false ∧ s = explicitSpelling t) ∧
    (s ∈ (discoverFiles fs cfg targets false xp).excluded →
      ∃ t ∈ targets, isDir fs t = false ∧ s = t) := by
  constructor
  · rw [mem_files]
    rintro ⟨t, ht, h⟩
    cases hd : isDir fs t
    · refine ⟨t, ht, hd, ?_⟩
      simp only [targetFiles, hd, Bool.false_eq_true, ↓reduceIte] at h
      split at h
      · simpa using h
      · simp at h
    · simp [targetFiles, hd] at h
  · rw [mem_excluded]
    rintro ⟨t, ht, h⟩
    cases hd : isDir fs t
    · refine ⟨t, ht, hd, ?_⟩
      simp only [targetExcluded, hd, Bool.false_eq_true, ↓reduceIte] at h
      split at h
      · simp at h
      · simpa using h
    · simp [targetExcluded, hd] at h

/-- …in particular directory targets alone give two empty lists. -/
theorem no_descent_without_r_dirs_only (fs : Fs) (cfg : Config) (targets : List Str) (xp : Str)
    (hdirs : ∀ t ∈ targets, isDir fs t = true) :
    discoverFiles fs cfg targets false xp = ⟨[], []⟩ := by
  have h : ∀ (f : Str → List Str), (∀ t ∈ targets, f t = []) → targets.flatMap f = [] := by
    intro f hf
    simp only [List.flatMap_eq_nil_iff]
    exact hf
  simp only [discoverFiles]
  rw [h _ (fun t ht => by simp [targetFiles, hdirs t ht]),
      h _ (fun t ht => by simp [targetExcluded, hdirs t ht])]
  rfl

/-! ### Kernel-checked witnesses on tiny trees (`repoRoot`, `projFs`, `defaultX`: `Bandit/Proofs/C11.lean`) -/

/-- the default excludes of the code under test still contain every published default -/
theorem gen_default_excludes_cover_published :
    ∀ d ∈ Spec.defaultExcludes, d ∈ Gen.defaultExclude := by decide

/-- **NEG (known finding C11-exclude-dir-in-cwd).**  Run from a directory that itself contains
`.git` (`bandit -r .` at a repository root, default excludes): `./.git/hooks/x.py` is scanned,
although the property's reading says it must be excluded (it is under the default-excluded `.git`).
The `-x` entry `.git` is an existing directory relative to cwd, is rewritten to `.git/*`, and that
neither `fnmatch`es nor occurs in `./.git/hooks/x.py`. -/
theorem NEG_default_exclude_in_cwd :
    "./.git/hooks/x.py".toList ∈ (discoverFiles repoRoot Config.noFile [".".toList] true defaultX).files ∧
    Spec.verdict (includedGlobs Config.noFile) (Spec.userExcludes Config.noFile defaultX)
      "./.git/hooks/x.py".toList = .mustExclude ∧
    NoEntryIsDir repoRoot defaultX = false ∧
    lostByRewrite repoRoot Config.noFile defaultX true "./.git/hooks/x.py".toList = true := by
  decide +kernel

/-- …the same tree scanned from the parent directory (`bandit -r w`): the guard holds and `.git` is
excluded as the property says. -/
theorem default_exclude_from_parent :
    discoverFiles { repoRoot with cwd := [] } Config.noFile ["w".toList] true defaultX
      = ⟨["w/a.py".toList], ["w/.git/hooks/x.py".toList, "w/notes.txt".toList]⟩ ∧
    NoEntryIsDir { repoRoot with cwd := [] } defaultX = true := by
  decide +kernel

/-- **NEG (observation, not a finding).**  `bandit -r proj proj/a.py` lists the same file under two
spellings, so it is scanned twice. -/
theorem NEG_same_file_two_spellings :
    (discoverFiles projFs Config.noFile ["proj".toList, "proj/a.py".toList] true defaultX).files
      = ["./proj/a.py".toList, "proj/a.py".toList] := by
  decide +kernel

/-- **Observation.**  …and `bandit -r proj proj/data.txt` lists `./proj/data.txt` as scanned
(explicit file, any extension) next to `proj/data.txt` as excluded (walked, not `*.py`): two
spellings again, one in each list. -/
theorem NEG_same_file_two_roles :
    discoverFiles projFs Config.noFile ["proj".toList, "proj/data.txt".toList] true defaultX
      = ⟨["./proj/data.txt".toList, "proj/a.py".toList], ["proj/data.txt".toList]⟩ := by
  decide +kernel

/-! ### Targets are a set -/

/-- **no path is listed twice**, in either list: a file reached through two targets (`-r pkg pkg/sub`, a directory named twice) is one file -/
theorem lists_have_no_duplicates (fs : Fs) (cfg : Config) (targets : List Str) (r : Bool) (xp : Str) :
    (discoverFiles fs cfg targets r xp).files.Nodup ∧ (discoverFiles fs cfg targets r xp).excluded.Nodup :=
  ⟨sortedSet_nodup _, sortedSet_nodup _⟩

/-- **order and repetition of the targets are irrelevant**: two target lists with the same members give the same two lists (seeded change C12-m16 kept the
order of the targets and dropped the set: overlapping targets were scanned twice) -/
theorem targets_order_and_repetition_irrelevant (fs : Fs) (cfg : Config) (ts ts' : List Str) (r : Bool) (xp : Str)
    (h : ∀ t, t ∈ ts ↔ t ∈ ts') : discoverFiles fs cfg ts r xp = discoverFiles fs cfg ts' r xp :=
  discoverFiles_targets_ext fs cfg ts ts' r xp h

example : discoverFiles projFs Config.noFile ["proj".toList, "proj".toList] true defaultX = discoverFiles projFs Config.noFile ["proj".toList] true defaultX ∧
    (discoverFiles projFs Config.noFile ["proj".toList, "proj".toList] true defaultX).files = ["proj/a.py".toList] := by
  decide +kernel

/-! ### Non-vacuity: the hypotheses above are satisfiable by non-trivial values -/

/-- `partition`'s hypothesis holds for a real directory target and the walk is non-empty. -/
example : (∀ t ∈ ["w".toList], isDir { repoRoot with cwd := [] } t = true) ∧
    walkedPaths { repoRoot with cwd := [] } "w".toList
      = ["w/a.py".toList, "w/notes.txt".toList, "w/.git/hooks/x.py".toList] := by decide +kernel

/-- the guard of the partial theorems holds for a non-trivial `-x` (nine entries, one a glob) and
both spec regions are inhabited under it -/
example : NoEntryIsDir { repoRoot with cwd := [] } defaultX = true ∧
    Spec.verdict ["*.py".toList] (Spec.userExcludes Config.noFile defaultX) "w/a.py".toList = .mustScan ∧
    Spec.verdict ["*.py".toList] (Spec.userExcludes Config.noFile defaultX) "w/.git/hooks/x.py".toList = .mustExclude ∧
    Spec.verdict ["*.py".toList] ["test".toList] "w/contest.py".toList = .either := by decide +kernel

/-- explicit file with a non-Python extension: hypotheses of `explicit_any_extension` hold -/
example : isDir repoRoot "notes.txt".toList = false ∧
    Spec.explicitMustScan (Spec.userExcludes Config.noFile defaultX) "notes.txt".toList = true ∧
    (discoverFiles repoRoot Config.noFile ["notes.txt".toList] false defaultX).files = ["./notes.txt".toList] := by
  decide +kernel

/-- `StarSuffix` covers the default include list -/
example : ∀ g ∈ Config.noFile.includes, StarSuffix g := by
  intro g hg
  simp only [Config.noFile, List.mem_cons, List.not_mem_nil, or_false] at hg
  rcases hg with rfl | rfl
  · exact ⟨".py".toList, rfl, by decide, by decide⟩
  · exact ⟨".pyw".toList, rfl, by decide, by decide⟩

/-- a symlinked directory is listed neither as file nor descended when walked from its parent, but
is walked when named as the target -/
example :
    let fs : Fs := { root := .dir false [("pkg".toList, .dir false [("b.py".toList, .file)]),
                                         ("lnk".toList, .dir true [("b.py".toList, .file)])], cwd := [] }
    walkedPaths fs ".".toList = ["./pkg/b.py".toList] ∧ walkedPaths fs "lnk/".toList = ["lnk/b.py".toList] := by
  decide +kernel

end Props.C11
