import Bandit.Proofs.LocNewline
import Bandit.Proofs.Metrics
import Bandit.Gen.Constants
/-!
# C12 — Run metrics are exact
-/
namespace Props.C12
open Bandit Bandit.Metrics

/-- **Counts are exact.**  With positive weights, the per-file count reported for a criterion and
rank (score divided by weight) is the number of reported findings of that rank. -/
theorem count_exact (w : Weights) (fs : List Finding) (c : Criterion) (r : Rank) (hw : 0 < w r) :
    issueCount w fs c r = (fs.filter (fun f => rankOf c f = r)).length := by
  unfold issueCount
  rw [score_eq, Nat.mul_div_cancel _ hw]

/-- a zero weight would make every count of that rank vanish — why positivity is an obligation -/
theorem NEG_zero_weight (w : Weights) (fs : List Finding) (c : Criterion) (r : Rank) (hw : w r = 0) :
    issueCount w fs c r = 0 := by
  simp [issueCount, hw]

/-- **Totals are sums over files** (one `run_tests`), for every counter -/
theorem totals_are_sums (ms : List FileMetrics) :
    (aggregate ms).loc = (ms.map (·.loc)).sum ∧
    (aggregate ms).nosec = (ms.map (·.nosec)).sum ∧
    (aggregate ms).skippedTests = (ms.map (·.skippedTests)).sum ∧
    ∀ c r, (aggregate ms).counts c r = (ms.map (fun m => m.counts c r)).sum :=
  ⟨rfl, rfl, rfl, fun _ _ => rfl⟩

/-- totals of the counts are the number of findings of that rank over all files -/
theorem total_counts_exact (w : Weights) (files : List (List Bytes × List Event)) (c : Criterion) (r : Rank)
    (hw : 0 < w r) :
    (aggregate (files.map fun f => fileMetrics w f.1 f.2)).counts c r
      = ((files.map fun f => ((findingsOf f.2).filter (fun x => rankOf c x = r)).length)).sum := by
  simp only [aggregate, fileMetrics, List.map_map]
  congr 1
  apply List.map_congr_left
  intro f _
  exact count_exact w _ c r hw

/-- **Lines of code.**  A line is counted iff it is neither blank nor comment-only (first
non-blank byte, after an optional UTF-8 BOM, exists and is not `#`) — for every byte string. -/
theorem loc_rule (line : Bytes) : isLoc line = Spec.isCode line := isLoc_eq_spec line

theorem loc_count (lines : List Bytes) : countLocs lines = (lines.filter Spec.isCode).length := by
  unfold countLocs
  congr 1
  apply List.filter_congr
  intro l _; exact loc_rule l

/-- a BOM-prefixed comment line is not code (this was a defect of the pinned commit) -/
example : isLoc ([0xEF, 0xBB, 0xBF] ++ "# comment".toList.map Char.toNat) = false := by decide
example : isLoc ("  x = 1  # c".toList.map Char.toNat) = true := by decide

/-- **nosec / skipped-tests counters** equal the number of findings withheld by bare and by
test-specific nosec comments -/
theorem counters_exact (w : Weights) (lines : List Bytes) (es : List Event) :
    (fileMetrics w lines es).nosec = (es.filter fun | .nosec _ => true | _ => false).length ∧
    (fileMetrics w lines es).skippedTests = (es.filter fun | .skipped _ => true | _ => false).length :=
  ⟨rfl, rfl⟩

/-! ### instances over the generated constants -/

def genWeight (r : Rank) : Nat := ((Gen.rankingValues.find? (·.1 == r.name.toList)).map (·.2)).getD 0

/-- the generated `RANKING_VALUES` are positive and `RANKING` is the four ranks in order -/
theorem gen_weights_positive :
    (∀ r : Rank, 0 < genWeight r) ∧
    Gen.ranking = [Rank.undefined, .low, .medium, .high].map (fun r => r.name.toList) := by
  refine ⟨?_, by decide⟩
  intro r; cases r <;> decide

/-- **lines of code do not depend on the line-end style**: an LF file, its CRLF rendering and its lone-CR rendering have the same physical lines
(`bytes.splitlines()` drops the terminators) and therefore the same `loc` -/
theorem loc_newline_style_independent (s : Bytes) (h : 13 ∉ s) :
    countLocs (splitLines (toCRLFb s)) = countLocs (splitLines s) ∧ countLocs (splitLines (toCRb s)) = countLocs (splitLines s) := by
  obtain ⟨h1, h2⟩ := splitLines_newline_style s h
  rw [h1, h2]; exact ⟨rfl, rfl⟩

example : splitLines (toCRLFb [120, 10, 35, 10, 10, 121]) = [[120], [35], [], [121]] ∧ countLocs (splitLines (toCRLFb [120, 10, 35, 10, 10, 121])) = 2 := by
  decide

/-- **the lines `loc` is counted over are the parser's lines**: `bytes.splitlines()` gives the same lines whether or not `\\r\\n` / `\\r` were first rewritten to
`\\n` — the normalisation under which comments are numbered (`/repo` 1cb0176) and the AST is built does not change the line list of the metrics -/
theorem loc_lines_are_parser_lines (s : Bytes) : countLocs (splitLines (normNl s)) = countLocs (splitLines s) := by
  rw [splitLines_normNl]

example : normNl [120, 13, 10, 121, 13, 122, 10] = [120, 10, 121, 10, 122, 10] := by decide

/-! ### counts partition the findings; totals are order-independent and additive -/

/-- **every finding is counted exactly once per criterion**: with positive weights the four per-rank counts of a criterion add up to the
number of reported findings of the file — no finding is dropped from, or counted twice in, the severity (or confidence) breakdown -/
theorem counts_partition (w : Weights) (fs : List Finding) (c : Criterion) (hw : ∀ r, 0 < w r) :
    issueCount w fs c .undefined + issueCount w fs c .low + issueCount w fs c .medium + issueCount w fs c .high = fs.length := by
  rw [count_exact w fs c _ (hw _), count_exact w fs c _ (hw _), count_exact w fs c _ (hw _), count_exact w fs c _ (hw _)]
  induction fs with
  | nil => rfl
  | cons f fs ih =>
    simp only [List.filter_cons, List.length_cons]
    cases h : rankOf c f <;> simp <;> omega

/-- **one more finding moves exactly one counter by one**: reporting an additional finding raises the count of its own rank by 1 and
leaves the count of every other rank of that criterion unchanged -/
theorem count_cons (w : Weights) (f : Finding) (fs : List Finding) (c : Criterion) (r : Rank) (hw : 0 < w r) :
    issueCount w (f :: fs) c r = issueCount w fs c r + (if rankOf c f = r then 1 else 0) := by
  rw [count_exact w _ c r hw, count_exact w _ c r hw, List.filter_cons]
  by_cases h : rankOf c f = r <;> simp [h]

/-- counts do not depend on the order in which the findings of a file were reported -/
theorem count_order_independent (w : Weights) (fs fs' : List Finding) (h : fs.Perm fs') (c : Criterion) (r : Rank) (hw : 0 < w r) :
    issueCount w fs c r = issueCount w fs' c r := by
  rw [count_exact w _ c r hw, count_exact w _ c r hw]
  exact (h.filter _).length_eq

/-- **totals do not depend on the order in which files were scanned**: any permutation of the per-file blocks gives the same totals,
for every counter -/
theorem totals_order_independent (ms ms' : List FileMetrics) (h : ms.Perm ms') :
    (aggregate ms).loc = (aggregate ms').loc ∧ (aggregate ms).nosec = (aggregate ms').nosec ∧
    (aggregate ms).skippedTests = (aggregate ms').skippedTests ∧
    ∀ c r, (aggregate ms).counts c r = (aggregate ms').counts c r := by
  refine ⟨?_, ?_, ?_, fun c r => ?_⟩ <;> exact (h.map _).sum_nat

/-- **totals are additive over a split of the file list** (scanning `A ++ B` totals what scanning `A` and `B` total together) -/
theorem totals_additive (a b : List FileMetrics) :
    (aggregate (a ++ b)).loc = (aggregate a).loc + (aggregate b).loc ∧
    (aggregate (a ++ b)).nosec = (aggregate a).nosec + (aggregate b).nosec ∧
    (aggregate (a ++ b)).skippedTests = (aggregate a).skippedTests + (aggregate b).skippedTests ∧
    ∀ c r, (aggregate (a ++ b)).counts c r = (aggregate a).counts c r + (aggregate b).counts c r := by
  simp [aggregate]

/-- the grand total of a criterion's four counts over all files is the number of findings reported in the run -/
theorem total_counts_partition (w : Weights) (files : List (List Bytes × List Event)) (c : Criterion) (hw : ∀ r, 0 < w r) :
    let t := aggregate (files.map fun f => fileMetrics w f.1 f.2)
    t.counts c .undefined + t.counts c .low + t.counts c .medium + t.counts c .high
      = (files.map fun f => (findingsOf f.2).length).sum := by
  intro t
  induction files with
  | nil => rfl
  | cons f fs ih =>
    have hp := counts_partition w (findingsOf f.2) c hw
    simp only [t, aggregate, fileMetrics, List.map_cons, List.sum_cons] at ih hp ⊢
    omega


end Props.C12
