import Bandit.Proofs.C13
import Bandit.Proofs.C13Gen
/-!
# C13 — Configuration sources are equivalent, and bad configuration is rejected

Only property theorems live here (helper lemmas: `Bandit/Proofs/C13.lean`, `C13Gen.lean`).
`run` is the model of the configuration-dependent part of `bandit.cli.main.main()`; its inputs are
what the parsers return (`FileOutcome`, `IniOutcome`, `Cli`), see `Bandit/ConfigLoad.lean`.
-/
namespace Props.C13
open Bandit Bandit.ConfigLoad

/-! ## Carrier equivalence -/

/-- **The four carriers agree.** For every selection `(tests, skips)` of canonically spelled IDs
(non-empty, comma-free), every world whose plugin keys are ordinary names, and every target list:
the selection written as a YAML document, as `[tool.bandit]` of a TOML document, as the `[bandit]`
section of an INI file, or as `-t` / `-s` flags leads to *the same* outcome — namely the one the
abstract selection prescribes (`Spec.selectionOutcome`: rejected iff contradictory or empty, else a
scan with exactly these include/exclude sets, all plugin settings at their defaults, default
exclusions and thresholds). -/
theorem carrier_equiv (w : World) (ts ss tg : List Str) (py pt : Str)
    (hts : ∀ i ∈ ts, Spec.CanonId i) (hss : ∀ i ∈ ss, Spec.CanonId i) (htg : tg ≠ [])
    (hplain : Spec.PlainDefaults w.defaults)
    (hy : w.file py = .parsed (Spec.selCfg ts ss)) (hyn : py ≠ []) (hye : Str.endsWith py ".toml".toList = false)
    (ht : w.file pt = .parsed (Spec.tomlDoc (Spec.selCfg ts ss))) (hte : Str.endsWith pt ".toml".toList = true) :
    run w { excluded := w.dx, targets := tg, configFile := some py } .absent = Spec.selectionOutcome w tg ts ss ∧
    run w { excluded := w.dx, targets := tg, configFile := some pt } .absent = Spec.selectionOutcome w tg ts ss ∧
    run w { excluded := w.dx, targets := tg } (.opts (Spec.iniSel ts ss)) = Spec.selectionOutcome w tg ts ss ∧
    run w { excluded := w.dx, targets := tg, tests := Spec.optJoin ts, skips := Spec.optJoin ss } .absent
      = Spec.selectionOutcome w tg ts ss := by
  have hptn : pt ≠ [] := by intro e; subst e; simp [Str.endsWith] at hte
  refine ⟨?_, ?_, run_ini w ts ss tg hts hss htg hplain, run_cliflags w ts ss tg hts hss htg hplain⟩
  · exact run_cfgfile w ts ss tg py _ htg hplain hy hyn (by rw [hye]; rfl)
  · refine run_cfgfile w ts ss tg pt _ htg hplain ht hptn ?_
    rw [hte]
    exact congrArg Outcome.ofM (tomlExtract_tomlDoc (selKvs ts ss))

/-- **Selections merge across carriers**: with no profile and a well-typed config, the include set
is *config `tests` ∪ flag `-t`* (flag = command line or INI) and the exclude set *config `skips` ∪
flag `-s`*; nothing else reaches the scan, and the only rejection at this stage is a contradiction. -/
theorem selection_merges (w : World) (c : Cli) (ini : IniOutcome) (a : Args) (ld : Loaded)
    (kvs : List (Str × CfgVal)) (ct cs : List Str)
    (hres : resolveArgs w.dx c ini = .ok a) (hload : stageLoad w a = .ok ld) (htg : a.targets ≠ [])
    (hcfg : ld.cfg = .map kvs) (hp : truthyOpt a.profile = false)
    (ht : Spec.idsOf ((lookupKV kvs "tests".toList).getD .null) = some ct)
    (hs : Spec.idsOf ((lookupKV kvs "skips".toList).getD .null) = some cs) :
    run w c ini =
      (if (union ct (splitIds a.tests)).any ((union cs (splitIds a.skips)).contains ·) then .reject .contradictory
       else stageScan w ld a (union ct (splitIds a.tests), union cs (splitIds a.skips), false)) :=
  run_noprofile w c ini a ld kvs ct cs hres hload htg hcfg hp ht hs

/-! ## Plugin settings -/

/-- **Settings are local.** Giving (or replacing) the block of plugin key `k` leaves the settings of
every other plugin key unchanged — whatever else the config contains. -/
theorem settings_local (kvs : List (Str × CfgVal)) (k name : Str) (v d : CfgVal)
    (hne : name ≠ k) (hdot : '.' ∉ name) :
    pluginSetting (Spec.withBlock (.map kvs) k v) d name = pluginSetting (.map kvs) d name := by
  simp only [Spec.withBlock]
  rw [pluginSetting_map _ d name hdot, pluginSetting_map kvs d name hdot]
  have h1 : ((k, v).1 == name) = false := by simpa using fun e => hne e.symm
  rw [lookupKV_cons_ne (k, v) _ name h1, lookupKV_filter_ne kvs k name hne]

/-- … and the given block **replaces** that plugin's defaults wholesale (no merge with the default). -/
theorem settings_replace (kvs : List (Str × CfgVal)) (k : Str) (v d : CfgVal) (hdot : '.' ∉ k) (hv : v ≠ .null) :
    pluginSetting (Spec.withBlock (.map kvs) k v) d k = v := by
  simp only [Spec.withBlock]
  rw [pluginSetting_map _ d k hdot, lookupKV_cons_eq (k, v) _ k (by simp)]
  cases v <;> first | rfl | exact absurd rfl hv

/-- over the whole defaults table: only `k`'s entry can differ -/
theorem settings_local_table (kvs : List (Str × CfgVal)) (k : Str) (v : CfgVal) (defaults : PluginCfg)
    (hd : ∀ kv ∈ defaults, '.' ∉ kv.1) :
    ∀ kv ∈ defaults, kv.1 ≠ k →
      pluginSetting (Spec.withBlock (.map kvs) k v) kv.2 kv.1 = pluginSetting (.map kvs) kv.2 kv.1 :=
  fun kv hkv hne => settings_local kvs k kv.1 v kv.2 hne (hd kv hkv)

/-- a config that mentions no plugin key runs every plugin with its generated default -/
theorem no_block_means_defaults (kvs : List (Str × CfgVal)) (d : PluginCfg)
    (hd : ∀ kv ∈ d, '.' ∉ kv.1) (hk : ∀ kv ∈ d, lookupKV kvs kv.1 = none) :
    effective (.map kvs) d = d :=
  effective_plain kvs d hd hk

/-! ## Generator -/

/-- **The generator's output is neutral** (instance over the tables regenerated from /repo): loading
the document `bandit-config-generator -o f` writes gives every config-taking plugin exactly its
default settings, and an empty selection — the same as no config at all. -/
theorem generator_neutral :
    effective (generatorOutput genPlugins Gen.pluginDefaults none none) Gen.pluginDefaults = Gen.pluginDefaults
    ∧ effective noConfig.cfg Gen.pluginDefaults = Gen.pluginDefaults
    ∧ getOption (generatorOutput genPlugins Gen.pluginDefaults none none) "tests".toList = .ok .null
    ∧ getOption (generatorOutput genPlugins Gen.pluginDefaults none none) "skips".toList = .ok .null := by
  refine ⟨cfgBeqMap_sound _ _ (by decide +kernel), cfgBeqMap_sound _ _ (by decide +kernel), ?_, ?_⟩
  · rw [generatorOutput, getOption_map _ _ dotfree_tests]; rfl
  · rw [generatorOutput, getOption_map _ _ dotfree_skips]; rfl

/-- … and the whole run agrees: scanning with the generated file equals scanning without `-c` -/
theorem generator_neutral_run :
    (match run (genWorld [("gen.yaml".toList, .parsed (generatorOutput genPlugins Gen.pluginDefaults none none))])
              { genCli with configFile := some "gen.yaml".toList } .absent,
           run (genWorld []) genCli .absent with
     | .ok a, .ok b => a.inc == b.inc && a.exc == b.exc && cfgBeqMap a.settings b.settings && a.globs == b.globs &&
                       a.severity == b.severity && a.confidence == b.confidence && a.legacy == b.legacy
     | _, _ => false) = true := by
  decide +kernel

/-- the regenerated defaults table has ordinary keys (hypothesis `PlainDefaults` of `carrier_equiv`) -/
theorem gen_defaults_plain : Spec.PlainDefaults Gen.pluginDefaults := by decide +kernel

/-! ## Precedence between the command line and the INI file -/

/-- **INI fills in what the command line left at its default**: with no option given on the command
line, an INI section (without the numeric `level`/`confidence` options) behaves exactly like the
command line that spells the same options. -/
theorem ini_fills_defaults (w : World) (kvs : List (Str × Str)) (tg : List Str) (htg : tg ≠ [])
    (hl : iniGet kvs "level" = none) (hc : iniGet kvs "confidence" = none) :
    run w { excluded := w.dx, targets := tg } (.opts kvs) = run w (Spec.cliOfIni w.dx kvs tg) .absent := by
  unfold run
  rw [resolve_ini_as_cli w.dx kvs tg htg hl hc]

/-- **The command line wins**: when `-t` is given, the INI file's `tests` value has no influence. -/
theorem precedence_cli_tests (w : World) (c : Cli) (kvs kvs' : List (Str × Str)) (hc : truthyOpt c.tests = true)
    (hne : kvs.isEmpty = false) (hne' : kvs'.isEmpty = false)
    (h : ∀ k : String, k ≠ "tests" → iniGet kvs k = iniGet kvs' k) :
    run w c (.opts kvs) = run w c (.opts kvs') := by
  unfold run
  simp only [resolveArgs, hne, hne', Bool.false_eq_true, if_false, mergeIni_congr_tests w.dx c kvs kvs' hc h,
    h "level" (by decide), h "confidence" (by decide)]

theorem precedence_cli_skips (w : World) (c : Cli) (kvs kvs' : List (Str × Str)) (hc : truthyOpt c.skips = true)
    (hne : kvs.isEmpty = false) (hne' : kvs'.isEmpty = false)
    (h : ∀ k : String, k ≠ "skips" → iniGet kvs k = iniGet kvs' k) :
    run w c (.opts kvs) = run w c (.opts kvs') := by
  unfold run
  simp only [resolveArgs, hne, hne', Bool.false_eq_true, if_false, mergeIni_congr_skips w.dx c kvs kvs' hc h,
    h "level" (by decide), h "confidence" (by decide)]

/-- the three rules of `_log_option_source`: a given command-line value wins; a command-line value
*equal to the option's default* loses to a non-empty INI value (so `-x <default>` cannot override
an INI `exclude`); with neither, nothing is set -/
theorem precedence_rules (arg : Str) (ini : Str) (dflt : Str) (ha : arg ≠ []) (hi : ini ≠ []) :
    srcNone (some arg) (some ini) = some arg ∧ srcNone none (some ini) = some ini ∧ srcNone none none = none ∧
    (dflt ≠ arg → srcDefaultStr dflt arg (some ini) = arg) ∧ srcDefaultStr dflt dflt (some ini) = ini := by
  cases arg with
  | nil => exact absurd rfl ha
  | cons a as =>
    cases ini with
    | nil => exact absurd rfl hi
    | cons i is =>
      refine ⟨rfl, rfl, rfl, ?_, ?_⟩
      · intro h; simp [srcDefaultStr, h]
      · simp [srcDefaultStr]

/-! ## Rejection table -/

/-- **Bad files are rejected.** If the config file named by `-c` (or by the INI's `configfile`)
is unreadable, unparsable (syntax error or not UTF-8), or parses to something that is not a mapping
(`None` from an empty file, a scalar, a string, a list; for TOML: `tool` not a table or
`tool.bandit` not a table), the run ends with a diagnostic and exit status 2 — for **every** parser
result, never a traceback, never a scan.  (Full strength since /repo d27fc84 + 259b80f.) -/
theorem reject_table (w : World) (c : Cli) (ini : IniOutcome) (a : Args) (p : Str)
    (hres : resolveArgs w.dx c ini = .ok a) (hp : a.configFile = some p) (hpne : p ≠ [])
    (hbad : Spec.BadFile (Str.endsWith p ".toml".toList) (w.file p) = true) :
    ∃ r, run w c ini = .reject r ∧ (r = .unreadable ∨ r = .unparsable ∨ r = .notMapping) := by
  obtain ⟨r, hr, hcls⟩ := loadConfig_bad w.reg _ (w.file p) hbad
  refine ⟨r, ?_, hcls⟩
  unfold run
  simp only [hres, Outcome.bind_ok, stageLoad_file w a p hp hpne, hr, Outcome.bind_reject]

/-- **An unknown profile is rejected**, whatever carrier named it (`-p` or the INI's `profile`) and
whether or not a config file is loaded.  (`ld.profiles` carries the names of the config's
`profiles` mapping.) -/
theorem reject_unknown_profile (w : World) (c : Cli) (ini : IniOutcome) (a : Args) (ld : Loaded) (name : Str)
    (hres : resolveArgs w.dx c ini = .ok a) (hload : stageLoad w a = .ok ld) (htg : a.targets ≠ [])
    (hn : a.profile = some name) (hne : name ≠ []) (hnf : ∀ q ∈ ld.profiles, q.1 ≠ name) :
    run w c ini = .reject .unknownProfile := by
  unfold run
  have he : a.targets.isEmpty = false := by cases h : a.targets <;> simp_all
  have ht : truthyOpt a.profile = true := by cases name <;> simp_all [truthyOpt]
  have hf : ld.profiles.find? (fun q => some q.1 == a.profile) = none := by
    rw [List.find?_eq_none]; intro q hq; rw [hn]; simpa using hnf q hq
  simp only [hres, hload, Outcome.bind_ok, he, Bool.false_eq_true, if_false, stageSelect, getProfile, ht, if_true, hf,
    Outcome.bind_reject]

/-- **A contradictory selection is rejected**: an ID that is included (by the config's `tests` or by
`-t` or INI) and excluded (by `skips` or `-s` or INI) — in the same or in different carriers. -/
theorem reject_contradictory (w : World) (c : Cli) (ini : IniOutcome) (a : Args) (ld : Loaded)
    (kvs : List (Str × CfgVal)) (ct cs : List Str) (i : Str)
    (hres : resolveArgs w.dx c ini = .ok a) (hload : stageLoad w a = .ok ld) (htg : a.targets ≠ [])
    (hcfg : ld.cfg = .map kvs) (hp : truthyOpt a.profile = false)
    (ht : Spec.idsOf ((lookupKV kvs "tests".toList).getD .null) = some ct)
    (hs : Spec.idsOf ((lookupKV kvs "skips".toList).getD .null) = some cs)
    (hi : i ∈ ct ∨ i ∈ splitIds a.tests) (he : i ∈ cs ∨ i ∈ splitIds a.skips) :
    run w c ini = .reject .contradictory := by
  rw [run_noprofile w c ini a ld kvs ct cs hres hload htg hcfg hp ht hs]
  have : (union ct (splitIds a.tests)).any ((union cs (splitIds a.skips)).contains ·) = true := by
    rw [List.any_eq_true]
    exact ⟨i, (mem_union _ _ i).2 hi, by simpa using (mem_union _ _ i).2 he⟩
  rw [if_pos this]

/-! ## Regression instances: the inputs that used to end in a traceback (fixed in /repo) -/

/-- the former counter-examples (empty file, scalar, `profiles` string, TOML `tool = 5`,
non-UTF-8 TOML) are rejections; the harness replays each on the real code -/
theorem former_witnesses_rejected :
    (run (genWorld [("empty.yaml".toList, .parsed .null)]) { genCli with configFile := some "empty.yaml".toList } .absent).rejectOf = some .notMapping ∧
    (run (genWorld [("five.yaml".toList, .parsed (.int 5))]) { genCli with configFile := some "five.yaml".toList } .absent).rejectOf = some .notMapping ∧
    (run (genWorld [("s.yaml".toList, .parsed (.str "xprofilesx".toList))]) { genCli with configFile := some "s.yaml".toList } .absent).rejectOf = some .notMapping ∧
    (run (genWorld [("pyproject.toml".toList, .parsed (.map [("tool".toList, .int 5)]))]) { genCli with configFile := some "pyproject.toml".toList } .absent).rejectOf = some .notMapping ∧
    (run (genWorld [("pyproject.toml".toList, .undecodable)]) { genCli with configFile := some "pyproject.toml".toList } .absent).rejectOf = some .unparsable := by
  refine ⟨by decide +kernel, by decide +kernel, by decide +kernel, by decide +kernel, by decide +kernel⟩

/-- **INI numeric options**: `level = 3` in the INI file is the command line counted up to severity 3
(`-ll`): same thresholds, same selection (since /repo da9ae97) -/
theorem ini_level_as_cli :
    (match run (genWorld []) genCli (.opts [("level".toList, "3".toList)]), run (genWorld []) { genCli with severity := 3 } .absent with
     | .ok a, .ok b => a.severity == b.severity && a.confidence == b.confidence && a.inc == b.inc && a.exc == b.exc
     | _, _ => false) = true
    ∧ (run (genWorld []) { genCli with severity := 4 } (.opts [("level".toList, "2".toList)])).isOk = true := by
  refine ⟨by decide +kernel, by decide +kernel⟩

/-! ## Non-vacuity -/

/-- the hypotheses of `carrier_equiv` are met by the regenerated world and a non-trivial selection,
and the prescribed outcome there is a genuine scan -/
example :
    let w := genWorld [("c.yaml".toList, .parsed (Spec.selCfg ["B101".toList, "B602".toList] ["B108".toList])),
                       ("pyproject.toml".toList, .parsed (Spec.tomlDoc (Spec.selCfg ["B101".toList, "B602".toList] ["B108".toList])))]
    w.file "c.yaml".toList = .parsed (Spec.selCfg ["B101".toList, "B602".toList] ["B108".toList]) ∧
    Str.endsWith "c.yaml".toList ".toml".toList = false ∧ Str.endsWith "pyproject.toml".toList ".toml".toList = true ∧
    (Spec.selectionOutcome w ["x.py".toList] ["B101".toList, "B602".toList] ["B108".toList]).isOk = true ∧
    (∀ i ∈ ["B101".toList, "B602".toList], Spec.CanonId i) := by
  refine ⟨rfl, by decide, by decide, by decide +kernel, ?_⟩
  intro i hi
  simp only [List.mem_cons, List.not_mem_nil, or_false] at hi
  rcases hi with rfl | rfl <;> exact ⟨by decide, by decide⟩

/-- a contradictory selection is a rejected one (the conclusion of `reject_contradictory` is reachable) -/
example : (run (genWorld []) { genCli with tests := some "B101,B102".toList, skips := some "B102".toList } .absent).rejectOf
    = some .contradictory := by decide +kernel

/-- `BadFile` holds of bad files of every class and not of ordinary ones -/
example : Spec.BadFile false .unreadable = true ∧ Spec.BadFile true .syntaxError = true ∧ Spec.BadFile true .undecodable = true ∧
    Spec.BadFile false (.parsed .null) = true ∧ Spec.BadFile false (.parsed (.list [.str "profiles".toList])) = true ∧
    Spec.BadFile true (.parsed (.map [("tool".toList, .map [("bandit".toList, .str "abc".toList)])])) = true ∧
    Spec.BadFile false (.parsed (.map [])) = false ∧ Spec.BadFile true (.parsed (.map [])) = false := by
  refine ⟨rfl, rfl, rfl, rfl, rfl, by decide, rfl, by decide⟩

/-- a plugin block really changes that plugin's setting (so `settings_local` is not about a no-op) -/
example : cfgBeq (pluginSetting (Spec.withBlock (.map []) "hardcoded_tmp_directory".toList (.map [("tmp_dirs".toList, .list [.str "/opt".toList])]))
            (.map [("tmp_dirs".toList, .list [.str "/tmp".toList])]) "hardcoded_tmp_directory".toList)
          (.map [("tmp_dirs".toList, .list [.str "/opt".toList])]) = true := by decide +kernel

end Props.C13
