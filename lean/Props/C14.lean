import Bandit.Plugins.Shell
import Bandit.Gen.Defaults
import Bandit.Gen.Regexes
import Bandit.Proofs.C01
/-!
# C14 — Process-spawning checks follow the documented decision table
-/
namespace Props.C14
open Bandit Bandit.Plugins

/-! ## The documented decision table, as closed forms

`S` = "the call carries a truthy `shell=`" (`shellOn`), `A` = "at least one positional argument",
`L` = "the first positional argument is a plain string literal". -/

/-- the value `has_shell` computes, given the evaluated keywords -/
def shellOn (c : CallView) (kws : List (Option Str × PyVal)) : Bool :=
  (CallView.lookupKw kws "shell").isSome && shellFromKeywords c.keywords

def firstIsStr (c : CallView) : Bool := (c.args.head?.map Node.isStrConst).getD false

def grade (c : CallView) : Rank := if firstIsStr c then .low else .high

variable (cfg : ShellCfg) (e : Env) (c : CallView) (kws : List (Option Str × PyVal)) (as : List PyVal)

/-- hypotheses shared by the table theorems: a usable configuration, a call node whose keyword and
argument values evaluate without raising -/
structure Ok : Prop where
  cfgTruthy : cfg.truthy = true
  hasSub : cfg.hasSubprocess = true
  hasSh : cfg.hasShell = true
  hasNo : cfg.hasNoShell = true
  call : e.call? = some c
  kwsOk : c.callKeywords = .ok kws
  argsOk : c.callArgs = .ok as

theorem hasShell_eq (h : Ok cfg e c kws as) : hasShell c = .ok (shellOn c kws) := by
  unfold hasShell CallView.hasKw shellOn
  simp only [h.kwsOk, bind, Except.bind, pure, Except.pure]
  cases (CallView.lookupKw kws "shell").isSome <;> rfl

theorem args_len (h : Ok cfg e c kws as) : as.length = c.args.length := by
  have := h.argsOk
  unfold CallView.callArgs at this
  exact (List.length_mapM_except this)
where
  List.length_mapM_except {α β ε} {f : α → Except ε β} : ∀ {l : List α} {r : List β}, l.mapM f = .ok r → r.length = l.length
    | [], r, h => by simp [List.mapM_nil, pure, Except.pure] at h; subst h; rfl
    | a :: l, r, h => by
      rw [List.mapM_cons] at h
      cases hf : f a with
      | error x => simp [hf, bind, Except.bind] at h
      | ok b =>
        cases hl : l.mapM f with
        | error x => simp [hf, hl, bind, Except.bind] at h
        | ok bs =>
          simp [hf, hl, bind, Except.bind, pure, Except.pure] at h
          subst h
          simp [List.length_mapM_except hl]

/-- **B602**: subprocess family, truthy `shell=`, ≥ 1 positional argument; LOW for a plain string
literal command, HIGH otherwise; located on the `shell=` keyword -/
theorem b602_table (h : Ok cfg e c kws as) :
    b602 cfg e = .ok (if cfg.subprocess.contains e.qual && shellOn c kws && !c.args.isEmpty
      then some { sev := grade c, conf := .high, loc := .kw ["shell"] } else none) := by
  have hl := args_len cfg e c kws as h
  unfold b602
  simp only [h.call, h.cfgTruthy, h.hasSub, hasShell_eq cfg e c kws as h, h.argsOk, bind, Except.bind, pure, Except.pure,
    if_true, Bool.not_true, Bool.false_eq_true, if_false]
  by_cases hq : e.qual ∈ cfg.subprocess
  · by_cases hs : shellOn c kws = true
    · cases hargs : c.args with
      | nil => simp [hq, hs, hargs, hl]
      | cons a rest =>
        cases hstr : a.isStrConst <;>
          simp [hq, hs, hargs, hl, evalShellCall, grade, firstIsStr, pure, Except.pure, hstr]
    · simp [hq, hs]
  · simp [hq]

/-- **B603**: subprocess family and no truthy `shell=` -/
theorem b603_table (h : Ok cfg e c kws as) :
    b603 cfg e = .ok (if cfg.subprocess.contains e.qual && !shellOn c kws
      then some { sev := .low, conf := .high, loc := .kw ["shell"] } else none) := by
  unfold b603
  simp only [h.call, h.cfgTruthy, h.hasSub, hasShell_eq cfg e c kws as h, bind, Except.bind, pure, Except.pure,
    if_true, Bool.not_true, Bool.false_eq_true, if_false]
  by_cases hq : e.qual ∈ cfg.subprocess <;> by_cases hs : shellOn c kws = true <;> simp [hq, hs]

/-- **Partition**: a subprocess-family call with at least one positional argument is reported as
exactly one of B602 / B603 -/
theorem subprocess_partition (h : Ok cfg e c kws as) (hq : e.qual ∈ cfg.subprocess)
    (hargs : c.args.isEmpty = false) :
    ((∃ r, b602 cfg e = .ok (some r)) ∧ b603 cfg e = .ok none) ∨
    (b602 cfg e = .ok none ∧ ∃ r, b603 cfg e = .ok (some r)) := by
  rw [b602_table cfg e c kws as h, b603_table cfg e c kws as h]
  by_cases hs : shellOn c kws = true
  · left; simp [hq, hs, hargs]
  · right; simp [hq, hs]

/-- **B604**: any call outside the subprocess family carrying a truthy `shell=` -/
theorem b604_table (h : Ok cfg e c kws as) :
    b604 cfg e = .ok (if !cfg.subprocess.contains e.qual && shellOn c kws
      then some { sev := .medium, conf := .low, loc := .kw ["shell"] } else none) := by
  unfold b604
  simp only [h.call, h.cfgTruthy, h.hasSub, hasShell_eq cfg e c kws as h, bind, Except.bind, pure, Except.pure,
    if_true, Bool.not_true, Bool.false_eq_true, if_false]
  by_cases hq : e.qual ∈ cfg.subprocess <;> by_cases hs : shellOn c kws = true <;> simp [hq, hs]

/-- **B605**: shell family with ≥ 1 positional argument, graded like B602 -/
theorem b605_table (h : Ok cfg e c kws as) :
    b605 cfg e = .ok (if cfg.shell.contains e.qual && !c.args.isEmpty
      then some { sev := grade c, conf := .high } else none) := by
  have hl := args_len cfg e c kws as h
  unfold b605
  simp only [h.call, h.cfgTruthy, h.hasSh, h.argsOk, bind, Except.bind, pure, Except.pure,
    if_true, Bool.not_true, Bool.false_eq_true, if_false]
  by_cases hq : e.qual ∈ cfg.shell
  · cases hargs : c.args with
    | nil => simp [hq, hargs, hl]
    | cons a rest =>
      cases hstr : a.isStrConst <;>
        simp [hq, hargs, hl, evalShellCall, grade, firstIsStr, pure, Except.pure, hstr]
  · simp [hq]

/-- **B606**: no-shell family -/
theorem b606_table (h : Ok cfg e c kws as) :
    b606 cfg e = .ok (if cfg.noShell.contains e.qual then some { sev := .low, conf := .medium } else none) := by
  unfold b606
  simp only [h.cfgTruthy, h.hasNo, pure, Except.pure, if_true, Bool.not_true, Bool.false_eq_true, if_false, bind, Except.bind]
  by_cases hq : e.qual ∈ cfg.noShell <;> simp [hq]

/-- the command text B609 looks at: a string argument as it is, a list display joined with blanks
(every element rendered as `str()` would), anything else nothing -/
def wildcardText : PyVal → Str
  | .list xs => xs.flatMap (fun x => ' ' :: pyFormat x)
  | .str s => s
  | _ => []

/-- **B609**: `chown`/`chmod`/`tar`/`rsync` with `*` in the first positional argument of a call that
runs under a shell — a shell-family function, or a subprocess-family function with `shell=True` —
is reported HIGH/MEDIUM on the `shell=` keyword's line; everything else is silent.  `a` is the
evaluated first argument and `sh` the verdict of `check_call_arg_value("shell", "True")`; both
evaluations are total (`Props.C06.evaluators_total`). -/
theorem b609_table (h : Ok cfg e c kws as) (a : PyVal) (sh : Option Bool)
    (ha : c.argAt 0 = .ok a) (hsh : c.checkArg "shell" [.str "True".toList] = .ok sh) :
    b609 cfg e = .ok (
      if (cfg.shell.contains e.qual || (cfg.subprocess.contains e.qual && sh == some true))
          && decide (c.args.length ≥ 1) && !(wildcardText a).isEmpty
          && (vulnerableFuncs.any (fun f => Str.isInfix f (wildcardText a)) && (wildcardText a).contains '*')
      then some { sev := .high, conf := .medium, loc := .kw ["shell"] } else none) := by
  unfold b609
  simp only [h.call, h.hasSh, h.hasSub, bind, Except.bind, pure, Except.pure, Bool.and_self, Bool.not_true,
    Bool.false_eq_true, if_false]
  by_cases hq : cfg.shell.contains e.qual = true
  · simp only [hq, if_true, Bool.true_or, Bool.true_and]
    by_cases hl : c.args.length ≥ 1
    · simp only [hl, if_true, ha, decide_true, Bool.true_and]
      cases a <;> simp only [wildcardText] <;> (repeat' split) <;> simp_all <;> assumption
    · simp [hl]
  · simp only [hq, Bool.false_eq_true, if_false, Bool.false_or]
    by_cases hs : cfg.subprocess.contains e.qual = true
    · simp only [hs, if_true, hsh, Bool.true_and]
      by_cases hb : (sh == some true) = true
      · simp only [hb, if_true, Bool.true_and]
        by_cases hl : c.args.length ≥ 1
        · simp only [hl, if_true, ha, decide_true, Bool.true_and]
          cases a <;> simp only [wildcardText] <;> (repeat' split) <;> simp_all <;> assumption
        · simp [hl]
      · simp [hb]
    · have hs' : e.qual ∉ cfg.subprocess := by simpa using hs
      simp [hs']

/-- the executable named by the first positional argument: the literal itself, or the first
element of a non-empty list display -/
def exeLiteral (c : CallView) : Option Str :=
  match c.args with
  | [] => none
  | a :: _ => (exeNode a).strConst?

/-! ## The executable-path pattern of B607 -/

/-- the hand-written matcher stands for *this* source (regenerated from /repo; no flags) -/
theorem full_path_source_known :
    Gen.fullPathMatchPattern = "^(?:[A-Za-z](?=\\:)|[\\\\\\/\\.])".toList ∧
    Gen.fullPathMatchIgnoreCase = false := by
  decide +kernel

/-- `Char.isAlpha` of this Lean version is `isUpper || isLower`, both ASCII ranges; together with the
model's `< 128` guard it is exactly `[A-Za-z]` -/
theorem isAlpha_ascii_iff (c : Char) :
    (c.isAlpha && decide (c.toNat < 128)) = true ↔
      ((65 ≤ c.toNat ∧ c.toNat ≤ 90) ∨ (97 ≤ c.toNat ∧ c.toNat ≤ 122)) := by
  simp only [Char.isAlpha, Char.isUpper, Char.isLower, Bool.and_eq_true, Bool.or_eq_true, decide_eq_true_eq,
    UInt32.le_iff_toNat_le, Char.toNat]
  constructor
  · rintro ⟨h, _⟩
    rcases h with h | h
    · left; exact h
    · right; exact h
  · intro h
    refine ⟨?_, ?_⟩
    · rcases h with h | h
      · left; exact h
      · right; exact h
    · rcases h with h | h <;> omega

/-- **The matcher is the pattern.**  `full_path_match.match(s)` succeeds iff `s` starts with an ASCII
letter followed by `:` (the look-ahead `(?=\:)`), or with a backslash, a slash or a dot. -/
theorem full_path_match_is_pattern (s : Str) :
    fullPathMatch s = true ↔
      (∃ c rest, s = c :: ':' :: rest ∧
          ((65 ≤ c.toNat ∧ c.toNat ≤ 90) ∨ (97 ≤ c.toNat ∧ c.toNat ≤ 122))) ∨
      (∃ c rest, s = c :: rest ∧ (c = '\\' ∨ c = '/' ∨ c = '.')) := by
  cases s with
  | nil => simp [fullPathMatch]
  | cons c rest =>
    simp only [fullPathMatch, Bool.or_eq_true, Bool.and_eq_true, beq_iff_eq, List.cons.injEq]
    constructor
    · rintro (((⟨ha, hh⟩ | h) | h) | h)
      · left
        cases rest with
        | nil => simp at hh
        | cons d rest' =>
          simp only [List.head?_cons, Option.some.injEq] at hh
          subst hh
          exact ⟨c, rest', ⟨rfl, rfl⟩, (isAlpha_ascii_iff c).mp (by simp [ha.1, ha.2])⟩
      · right; exact ⟨c, rest, ⟨rfl, rfl⟩, Or.inl h⟩
      · right; exact ⟨c, rest, ⟨rfl, rfl⟩, Or.inr (Or.inl h)⟩
      · right; exact ⟨c, rest, ⟨rfl, rfl⟩, Or.inr (Or.inr h)⟩
    · rintro (⟨c', rest', ⟨rfl, rfl⟩, ha⟩ | ⟨c', rest', ⟨rfl, rfl⟩, h | h | h⟩)
      · left; left; left; exact ⟨by simpa using (isAlpha_ascii_iff _).mpr ha, by simp⟩
      · left; left; right; exact h
      · left; right; exact h
      · right; exact h

/-- drive letters, separators and dots; bare names, non-ASCII letters and a letter without `:` do not match -/
example : (["C:\\x.exe", "c:", "/bin/ls", "\\\\srv\\x", "./run", "..", "."].all (fun s => fullPathMatch s.toList)) = true ∧
    (["ls", "C", "Cx:", "é:", "1:", ":", "", "~/x", "-x"].any (fun s => fullPathMatch s.toList)) = false := by
  decide +kernel

/-- **B607 fires**: a configured function whose executable is a literal that does not start with a
path separator, `.` or a drive letter -/
theorem b607_fires (h : Ok cfg e c kws as) (s : Str)
    (hq : e.qual ∈ cfg.subprocess ∨ e.qual ∈ cfg.shell ∨ e.qual ∈ cfg.noShell)
    (hexe : exeLiteral c = some s) (hp : fullPathMatch s = false) :
    b607 cfg e = .ok (some { sev := .low, conf := .high }) := by
  have hl := args_len cfg e c kws as h
  unfold exeLiteral at hexe
  cases hargs : c.args with
  | nil => simp [hargs] at hexe
  | cons a rest =>
    simp only [hargs] at hexe
    have hq' : (cfg.subprocess.contains e.qual || cfg.shell.contains e.qual || cfg.noShell.contains e.qual) = true := by
      rcases hq with h1 | h1 | h1 <;> simp [h1]
    unfold b607
    simp only [h.call, h.cfgTruthy, h.hasSub, h.hasSh, h.hasNo, h.argsOk, bind, Except.bind, pure, Except.pure,
      if_true, Bool.not_true, Bool.false_eq_true, if_false, Bool.and_false, hargs, hl, List.length_cons, hexe, hp, hq']
    simp

/-- **B607 silent**: not a configured function, or the executable is not a literal, or the literal
starts with a path separator, `.` or a drive letter -/
theorem b607_silent (h : Ok cfg e c kws as)
    (hs : (e.qual ∉ cfg.subprocess ∧ e.qual ∉ cfg.shell ∧ e.qual ∉ cfg.noShell) ∨ exeLiteral c = none ∨
          ∃ s, exeLiteral c = some s ∧ fullPathMatch s = true) :
    b607 cfg e = .ok none := by
  have hl := args_len cfg e c kws as h
  unfold b607
  simp only [h.call, h.cfgTruthy, h.hasSub, h.hasSh, h.hasNo, h.argsOk, bind, Except.bind, pure, Except.pure,
    if_true, Bool.not_true, Bool.false_eq_true, if_false, Bool.and_false]
  cases hargs : c.args with
  | nil => simp [hargs, hl]
  | cons a rest =>
    simp only [hargs, hl, List.length_cons]
    unfold exeLiteral at hs
    simp only [hargs] at hs
    rcases hs with ⟨h1, h2, h3⟩ | hnone | ⟨s, hsome, hfp⟩
    · simp [h1, h2, h3]
    · simp [hnone]
    · simp [hsome, hfp]

/-! ## `has_shell` computes Python truthiness for statically known values -/

theorem litNodes_length : ∀ {ns : List Node} {xs : List PyVal}, literalValue.litNodes ns = .ok xs → xs.length = ns.length
  | [], xs, h => by simp [literalValue.litNodes, pure, Except.pure] at h; subst h; rfl
  | n :: ns, xs, h => by
    simp only [literalValue.litNodes, bind, Except.bind] at h
    cases hn : literalValue n with
    | error x => simp [hn] at h
    | ok v =>
      cases hr : literalValue.litNodes ns with
      | error x => simp [hn, hr] at h
      | ok vs =>
        simp [hn, hr, pure, Except.pure] at h
        subst h
        simp [litNodes_length hr]

set_option simprocs false in
theorem litList_eq (k : Str) (p : Option Pos) (a : List (Str × Atom)) (ks : List (Str × Bool × List Node)) :
    literalValue.litList ks = literalValue.litNodes ((Node.mk k p a ks).kidList "elts") := by
  unfold Node.kidList Node.kids
  induction ks with
  | nil => rfl
  | cons s rest ih =>
    obtain ⟨f, l, ns⟩ := s
    simp only [literalValue.litList, List.find?_cons]
    by_cases hf : (f == "elts".toList) = true
    · simp [hf]
    · simp only [hf, Bool.false_eq_true, if_false]
      exact ih

set_option simprocs false in
/-- number literals and list/tuple displays: `has_shell` agrees with the truthiness of the literal
value as `Context._get_literal_value` + Python's truth rule give it (floats `inf`/`nan` excluded:
both sides say truthy, trivially) -/
theorem shell_truthiness_numbers_containers (val : Node) (v : PyVal)
    (hk : val.isNumConst = true ∨ val.isKind "List" = true ∨ val.isKind "Tuple" = true)
    (hv : literalValue val = .ok v) :
    shellValueTruth val = v.truthy := by
  obtain ⟨k, p, a, ks⟩ := val
  rcases hk with hnum | hlist | htup
  · -- numbers
    have hc : (Node.mk k p a ks).isKind "Constant" = true := by
      unfold Node.isNumConst Node.constValue? at hnum
      by_cases h : (Node.mk k p a ks).isKind "Constant" = true
      · exact h
      · simp [h] at hnum
    unfold shellValueTruth
    simp only [hnum, if_true]
    unfold literalValue at hv
    simp only [hc, if_true] at hv
    unfold Node.isNumConst at hnum
    unfold Node.constValue? at hnum ⊢
    simp only [hc, if_true] at hnum ⊢
    cases hav : (Node.mk k p a ks).attr "value" with
    | none => simp [hav] at hnum
    | some at' =>
      cases at' <;> simp_all [pure, Except.pure] <;> (subst hv; simp [PyVal.truthy])
  · exact list_like "List" (by decide) (Or.inl rfl) hlist hv
  · exact list_like "Tuple" (by decide) (Or.inr rfl) htup hv
where
  list_like {k p a ks v} (kindName : String) (hne : kindName.toList ≠ "Constant".toList)
      (hwhich : kindName = "List" ∨ kindName = "Tuple")
      (hkind : (Node.mk k p a ks).isKind kindName = true)
      (hv : literalValue (Node.mk k p a ks) = .ok v) :
      shellValueTruth (Node.mk k p a ks) = v.truthy := by
    have hk : (Node.mk k p a ks).kind = kindName.toList := by simpa [Node.isKind] using hkind
    have hcst : (Node.mk k p a ks).isKind "Constant" = false := not_isKind_of_kind hk hne
    have hnn : (Node.mk k p a ks).isNumConst = false := by
      simp only [Node.isNumConst, Node.constValue?, hcst, Bool.false_eq_true, if_false]
    have hdisp : ((Node.mk k p a ks).isKind "List" || (Node.mk k p a ks).isKind "Tuple" || (Node.mk k p a ks).isKind "Set") = true := by
      rcases hwhich with rfl | rfl <;> simp [hkind]
    unfold shellValueTruth
    simp only [hnn, Bool.false_eq_true, if_false, hdisp, if_true]
    have hlit : literalValue (Node.mk k p a ks) = (do let xs ← literalValue.litList ks; pure (if kindName = "List" then PyVal.list xs else PyVal.tuple xs)) := by
      unfold literalValue
      simp only [hcst, Bool.false_eq_true, if_false]
      rcases hwhich with rfl | rfl
      · simp only [hkind, if_true]
      · have : (Node.mk k p a ks).isKind "List" = false := not_isKind_of_kind hk (by decide)
        simp only [this, Bool.false_eq_true, if_false, hkind, if_true]
        rfl
    rw [hlit, litList_eq k p a ks] at hv
    cases hl : literalValue.litNodes ((Node.mk k p a ks).kidList "elts") with
    | error x => rw [hl] at hv; cases hv
    | ok xs =>
      rw [hl] at hv
      have hlen := litNodes_length hl
      have hvv : v = (if kindName = "List" then PyVal.list xs else PyVal.tuple xs) := by
        cases hv; rfl
      subst hvv
      have he : ((Node.mk k p a ks).kidList "elts").isEmpty = xs.isEmpty := by
        cases xs <;> cases hh : (Node.mk k p a ks).kidList "elts" <;> simp_all
      rw [he]
      rcases hwhich with rfl | rfl
      · simp [PyVal.truthy]
      · have hne2 : ¬ ("Tuple" = "List") := by decide
        simp [PyVal.truthy, hne2]

/-- `True` / `False` / `None` constants -/
theorem shell_truthiness_constants (val : Node) (hc : val.isKind "Constant" = true) :
    (val.attr "value" = some (.bool true) → shellValueTruth val = true) ∧
    (val.attr "value" = some (.bool false) → shellValueTruth val = false) ∧
    (val.attr "value" = some .none → shellValueTruth val = false) := by
  have hk : val.kind = "Constant".toList := by simpa [Node.isKind] using hc
  have h1 : val.isKind "List" = false := by simp [Node.isKind, hk]
  have h2 : val.isKind "Tuple" = false := by simp [Node.isKind, hk]
  have h3 : val.isKind "Set" = false := by simp [Node.isKind, hk]
  have h4 : val.isKind "Dict" = false := by simp [Node.isKind, hk]
  have h5 : val.isKind "Name" = false := by simp [Node.isKind, hk]
  refine ⟨?_, ?_, ?_⟩ <;> intro hv <;>
    simp [shellValueTruth, Node.isNumConst, Node.isNameConst, Node.constValue?, Node.nameId?, hc, hv, h1, h2, h3, h4, h5]

/-- the repaired defect: an empty tuple display is a falsy `shell=` -/
example : shellValueTruth (.mk "Tuple".toList none [] [("elts".toList, true, [])]) = false := by decide

/-! ## instances over the generated defaults -/

/-- the generated default function lists contain the published ones -/
theorem gen_defaults_cover_published :
    let cfg := ShellCfg.ofCfg (PluginCfg.get Gen.pluginDefaults "shell_injection")
    (∀ f ∈ ["subprocess.Popen", "subprocess.call", "subprocess.check_call", "subprocess.check_output", "subprocess.run"],
        cfg.subprocess.contains f.toList = true) ∧
    (∀ f ∈ ["os.system", "os.popen", "os.popen2", "os.popen3", "os.popen4", "popen2.popen2", "popen2.popen3",
             "popen2.popen4", "popen2.Popen3", "popen2.Popen4", "commands.getoutput", "commands.getstatusoutput",
             "subprocess.getoutput", "subprocess.getstatusoutput"], cfg.shell.contains f.toList = true) ∧
    (∀ f ∈ ["os.execl", "os.execle", "os.execlp", "os.execlpe", "os.execv", "os.execve", "os.execvp", "os.execvpe",
             "os.spawnl", "os.spawnle", "os.spawnlp", "os.spawnlpe", "os.spawnv", "os.spawnve", "os.spawnvp",
             "os.spawnvpe", "os.startfile"], cfg.noShell.contains f.toList = true) ∧
    cfg.truthy = true ∧ cfg.hasSubprocess = true ∧ cfg.hasShell = true ∧ cfg.hasNoShell = true := by
  decide +kernel

end Props.C14
