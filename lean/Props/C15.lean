import Bandit.Proofs.Keywords
import Bandit.Proofs.Crypto
import Bandit.Plugins.CryptoGen
import Bandit.Gen.Defaults
/-!
# C15 — Weak-crypto and transport checks follow their decision tables

`Bandit.Plugins.*` is the model of the plugin code (evaluation order and exceptions included),
`Bandit.Spec.Crypto.*` the decision tables written from the property text and the plugin
documentation.  Every `…_table` theorem holds for ARBITRARY in-module tables `T`, environments,
call nodes and settings; the only hypotheses are that the node is a call and that the argument
values the check looks at evaluate.
-/
namespace Props.C15
open Bandit Bandit.Plugins Bandit.Spec.Crypto

/-! ## B501 — `verify=False` -/

/-- **B501 table.** -/
theorem b501_table (T : CryptoTables) (e : Env) (c : CallView) (kws : Kws)
    (hc : e.call? = some c) (hk : c.callKeywords = .ok kws) :
    b501 T e = .ok (if Spec.Crypto.b501 T e.qual kws
                    then some { sev := .high, conf := .high, loc := .kw ["verify"] } else none) := by
  have ht : Plugins.httpTarget T.b501HttpVerbs T.b501HttpxAttrs e
      = Spec.Crypto.httpTarget T.b501HttpVerbs T.b501HttpxAttrs e.qual := rfl
  simp only [Plugins.b501, hc, checkArg_ok hk, bind, Except.bind, pure, Except.pure, Spec.Crypto.b501, ht,
    isTrue_checkVal]
  repeat' split
  all_goals simp_all

/-- **B501 fires iff** the call is a `requests` verb / `httpx` attribute and `verify` is `False`
(literal `False` or the string `"False"`), and then it is HIGH/HIGH on the keyword's line. -/
theorem b501_iff (T : CryptoTables) (e : Env) (c : CallView) (kws : Kws)
    (hc : e.call? = some c) (hk : c.callKeywords = .ok kws) (r : PRaw) :
    b501 T e = .ok (some r) ↔
      (((root e.qual = "requests".toList ∧ last e.qual ∈ T.b501HttpVerbs) ∨
        (root e.qual = "httpx".toList ∧ last e.qual ∈ T.b501HttpxAttrs)) ∧
       (∃ v, kw kws "verify" = some v ∧ v.beq (.str "False".toList) = true)) ∧
      r = { sev := .high, conf := .high, loc := .kw ["verify"] } := by
  rw [b501_table T e c kws hc hk, ok_ite_some_iff]
  apply and_congr _ Iff.rfl
  simp only [Spec.Crypto.b501, Spec.Crypto.httpTarget, kwIn, Bool.and_eq_true, Bool.or_eq_true, beq_iff_eq,
    List.contains_iff_mem]
  apply and_congr Iff.rfl
  cases kw kws "verify" with
  | none => simp
  | some v => cases v <;> simp [PyVal.isNone, PyVal.beq]

/-- **Secure variant.** A `requests`/`httpx` call that leaves certificate checking on (no `verify`
keyword, or a value other than `False`) is not reported. -/
theorem b501_secure_variant_silent (T : CryptoTables) (e : Env) (c : CallView) (kws : Kws)
    (hc : e.call? = some c) (hk : c.callKeywords = .ok kws)
    (hv : ∀ v, kw kws "verify" = some v → v.beq (.str "False".toList) = false) :
    b501 T e = .ok none := by
  rw [b501_table T e c kws hc hk, ok_ite_none_iff]
  simp only [Spec.Crypto.b501, kwIn]
  cases h : kw kws "verify" with
  | none => simp
  | some v => have := hv v h; simp_all

/-! ## B113 — timeouts -/

/-- **B113 table** (over evaluated keyword values). -/
theorem b113_table (T : CryptoTables) (e : Env) (c : CallView) (kws : Kws)
    (hc : e.call? = some c) (hk : c.callKeywords = .ok kws) :
    b113 T e = .ok (if Spec.Crypto.b113 T e.qual kws then some b113Raw else none) := by
  have ht : Plugins.httpTarget T.b113HttpVerbs T.b113HttpxAttrs e
      = Spec.Crypto.httpTarget T.b113HttpVerbs T.b113HttpxAttrs e.qual := rfl
  have hn : e.name = last e.qual := rfl
  simp only [Plugins.b113, hc, checkArg_ok hk, bind, Except.bind, pure, Except.pure, Spec.Crypto.b113, ht, hn,
    isTrue_checkVal, isNone_checkVal, root]
  repeat' split
  all_goals simp_all

/-- **B113 as documented ("missing or None"), partial.** Under the guard that the `timeout`
keyword, when present, has a statically known value, B113 fires exactly when a `requests` verb has
no `timeout` keyword or a `requests`/`httpx` call passes `timeout=None`. -/
theorem b113_documented_partial (T : CryptoTables) (e : Env) (c : CallView) (kws : Kws)
    (hc : e.call? = some c) (hk : c.callKeywords = .ok kws)
    (guard : ∀ v, kw kws "timeout" = some v → v.isNone = false) :
    b113 T e = .ok (if Spec.Crypto.b113Documented T e.qual kws then some b113Raw else none) := by
  rw [b113_table T e c kws hc hk]
  have : Spec.Crypto.b113 T e.qual kws = Spec.Crypto.b113Documented T e.qual kws := by
    simp only [Spec.Crypto.b113, Spec.Crypto.b113Documented, kwUnknown]
    cases h : kw kws "timeout" with
    | none => rfl
    | some v => simp [guard v h]
  rw [this]

/-- **Secure variant.** A call passing a statically known timeout other than `None` is silent. -/
theorem b113_secure_variant_silent (T : CryptoTables) (e : Env) (c : CallView) (kws : Kws) (v : PyVal)
    (hc : e.call? = some c) (hk : c.callKeywords = .ok kws)
    (hv : kw kws "timeout" = some v) (hknown : v.isNone = false) (hnn : v.beq (.str "None".toList) = false) :
    b113 T e = .ok none := by
  rw [b113_table T e c kws hc hk, ok_ite_none_iff]
  simp_all [Spec.Crypto.b113, kwUnknown, kwIn]

/-! ## B324 — weak hashes -/

/-- **B324 table.** -/
theorem b324_table (T : CryptoTables) (e : Env) (c : CallView) (args : List PyVal) (kws : Kws)
    (hc : e.call? = some c) (ha : c.callArgs = .ok args) (hk : c.callKeywords = .ok kws) :
    b324 T e = .ok ((Spec.Crypto.b324 T e.qual args kws).map b324Raw) := by
  simp only [Plugins.b324, hc, b324Hashlib_ok T c args kws _ ha hk, b324Crypt_ok T c args kws _ ha hk,
    pure, Except.pure, Spec.Crypto.b324, components, last]
  generalize "hashlib".toList = s1
  generalize "crypt".toList = s2
  generalize "mksalt".toList = s3
  generalize "new".toList = s4
  by_cases h1 : (Str.splitOn '.' e.qual).contains s1 = true <;> by_cases h2 : (Str.splitOn '.' e.qual).contains s2 = true <;>
    by_cases h3 : (Str.lastDot e.qual == s2) = true <;> by_cases h4 : (Str.lastDot e.qual == s3) = true <;>
    simp only [h1, h2, h3, h4] <;> table_cases

/-- **Secure variant.** `usedforsecurity=False` (any value but `True`) silences every `hashlib` call. -/
theorem b324_secure_variant_silent (T : CryptoTables) (e : Env) (c : CallView) (args : List PyVal) (kws : Kws)
    (hc : e.call? = some c) (ha : c.callArgs = .ok args) (hk : c.callKeywords = .ok kws)
    (hh : "hashlib".toList ∈ components e.qual) (hs : forSecurity kws = false) :
    b324 T e = .ok none := by
  rw [b324_table T e c args kws hc ha hk]
  have : (components e.qual).contains "hashlib".toList = true := by simpa using hh
  simp only [Spec.Crypto.b324, this, hs]
  repeat' split
  all_goals simp_all

/-- a `hashlib` constructor that is neither weak nor `new` is silent -/
theorem b324_strong_hash_silent (T : CryptoTables) (e : Env) (c : CallView) (args : List PyVal) (kws : Kws)
    (hc : e.call? = some c) (ha : c.callArgs = .ok args) (hk : c.callKeywords = .ok kws)
    (hh : "hashlib".toList ∈ components e.qual) (hw : last e.qual ∉ T.weakHashes) (hn : last e.qual ≠ "new".toList) :
    b324 T e = .ok none := by
  rw [b324_table T e c args kws hc ha hk]
  have h1 : (components e.qual).contains "hashlib".toList = true := by simpa using hh
  have h2 : T.weakHashes.contains (last e.qual) = false := by simpa using hw
  have h3 : (last e.qual == "new".toList) = false := by simpa using hn
  simp only [Spec.Crypto.b324, h1, h2, h3]
  simp

/-! ## B502 / B503 / B504 — SSL/TLS protocol versions -/

/-- **B502 table**, for ANY configured list of bad protocol names: HIGH/HIGH on the `ssl_version`
(resp. `method`) keyword for `ssl.wrap_socket` (resp. `pyOpenSSL.SSL.Context`), MEDIUM/MEDIUM for
any other call passing a listed constant as `method=` or `ssl_version=`. -/
theorem b502_table (cfg : CfgVal) (xs : List CfgVal) (e : Env) (c : CallView) (kws : Kws)
    (hcfg : cfgIndex cfg "bad_protocol_versions" = .ok (.list xs))
    (hc : e.call? = some c) (hk : c.callKeywords = .ok kws) :
    b502 cfg e = .ok ((Spec.Crypto.b502 (cfgToPyList xs) e.qual kws).map
                        fun r => { sev := r, conf := r, loc := b502Loc e.qual }) := by
  simp only [Plugins.b502, hc, hcfg, checkArgCfg_list hk, bind, Except.bind, pure, Except.pure,
    Spec.Crypto.b502, b502Loc, isTrue_checkVal]
  generalize "ssl.wrap_socket".toList = s1
  generalize "pyOpenSSL.SSL.Context".toList = s2
  by_cases h1 : (e.qual == s1) = true <;> by_cases h2 : (e.qual == s2) = true <;>
    simp only [h1, h2] <;> table_cases

/-- **Secure variant.** A call whose `method` / `ssl_version` values are statically known and not on
the configured list (e.g. `ssl.PROTOCOL_TLSv1_2`) gets no B502. -/
theorem b502_secure_variant_silent (cfg : CfgVal) (xs : List CfgVal) (e : Env) (c : CallView) (kws : Kws)
    (hcfg : cfgIndex cfg "bad_protocol_versions" = .ok (.list xs))
    (hc : e.call? = some c) (hk : c.callKeywords = .ok kws)
    (hm : kwIn kws "method" (cfgToPyList xs) = false) (hs : kwIn kws "ssl_version" (cfgToPyList xs) = false) :
    b502 cfg e = .ok none := by
  rw [b502_table cfg xs e c kws hcfg hc hk]
  simp only [Spec.Crypto.b502, hm, hs]
  table_cases

/-- **B503 table**: a function definition is reported (MEDIUM/MEDIUM) iff one of its positional
defaults is an attribute whose last component is on the configured list. -/
theorem b503_table (cfg : CfgVal) (xs : List CfgVal) (e : Env)
    (hcfg : cfgIndex cfg "bad_protocol_versions" = .ok (.list xs)) :
    b503 cfg e = .ok (if Spec.Crypto.b503 (cfgToPyList xs)
                          ((match e.node.kid? "args" with | some a => a.kidList "defaults" | none => []).map
                            (qualAttr e.st.aliases))
                      then some { sev := .medium, conf := .medium } else none) := by
  simp only [Plugins.b503, hcfg, bind, Except.bind, b503_go]
  rfl

/-- a function without positional defaults is never reported by B503 -/
theorem b503_no_defaults_silent (cfg : CfgVal) (xs : List CfgVal) (e : Env)
    (hcfg : cfgIndex cfg "bad_protocol_versions" = .ok (.list xs))
    (hd : (match e.node.kid? "args" with | some a => a.kidList "defaults" | none => []) = []) :
    b503 cfg e = .ok none := by
  rw [b503_table cfg xs e hcfg, hd]; rfl

/-- **B504 table**: `ssl.wrap_socket` without a statically known `ssl_version` is LOW/MEDIUM;
nothing else is. -/
theorem b504_table (e : Env) (c : CallView) (kws : Kws)
    (hc : e.call? = some c) (hk : c.callKeywords = .ok kws) :
    b504 e = .ok (if Spec.Crypto.b504 e.qual kws
                  then some { sev := .low, conf := .medium, loc := .kw ["ssl_version"] } else none) := by
  simp only [Plugins.b504, hc, checkArg_ok hk, bind, Except.bind, pure, Except.pure, Spec.Crypto.b504,
    isNone_checkVal]
  by_cases h1 : (e.qual == "ssl.wrap_socket".toList) = true <;> simp only [h1] <;> table_cases

/-- **B504 fires iff** the call is `ssl.wrap_socket` and `ssl_version` is absent or statically unknown. -/
theorem b504_iff (e : Env) (c : CallView) (kws : Kws) (hc : e.call? = some c) (hk : c.callKeywords = .ok kws)
    (r : PRaw) :
    b504 e = .ok (some r) ↔
      (e.qual = "ssl.wrap_socket".toList ∧ (kw kws "ssl_version" = none ∨ kw kws "ssl_version" = some .none)) ∧
      r = { sev := .low, conf := .medium, loc := .kw ["ssl_version"] } := by
  rw [b504_table e c kws hc hk, ok_ite_some_iff]
  apply and_congr _ Iff.rfl
  simp only [Spec.Crypto.b504, kwUnknown, Bool.and_eq_true, beq_iff_eq]
  apply and_congr Iff.rfl
  cases kw kws "ssl_version" with
  | none => simp
  | some v => cases v <;> simp [PyVal.isNone]

/-- **Secure variant.** `ssl.wrap_socket(..., ssl_version=<known>)` gets no B504. -/
theorem b504_secure_variant_silent (e : Env) (c : CallView) (kws : Kws) (v : PyVal)
    (hc : e.call? = some c) (hk : c.callKeywords = .ok kws)
    (hv : kw kws "ssl_version" = some v) (hknown : v.isNone = false) :
    b504 e = .ok none := by
  rw [b504_table e c kws hc hk, ok_ite_none_iff]
  simp [Spec.Crypto.b504, kwUnknown, hv, hknown]

/-! ## B507 — paramiko host-key policy -/

/-- **B507 table** (the check is total: it never raises on a call). -/
theorem b507_table (e : Env) (c : CallView) (hc : e.call? = some c) :
    b507 e = .ok (if Spec.Crypto.b507 (importedLike e.st "paramiko") e.qual (c.args.head?.bind policyName)
                  then some { sev := .high, conf := .medium, loc := .kw ["set_missing_host_key_policy"] }
                  else none) := by
  have hn : e.name = last e.qual := rfl
  have ha : autoAcceptPolicies = autoAccepting := rfl
  simp only [Plugins.b507, hc, hn, ha, pure, Except.pure, Spec.Crypto.b507]
  by_cases h1 : (importedLike e.st "paramiko" && last e.qual == "set_missing_host_key_policy".toList) = true
  · simp only [h1, if_true, Bool.true_and]
    cases c.args with
    | nil => simp
    | cons a rest =>
      cases hp : policyName a with
      | none => simp [hp]
      | some p =>
        simp only [List.head?_cons, Option.bind_some, hp]
        table_cases
  · simp only [Bool.eq_false_iff.mpr h1, Bool.false_and, Bool.false_eq_true, if_false]

/-- **B507 fires iff** paramiko is imported, the method is `set_missing_host_key_policy` and the
first positional argument names `AutoAddPolicy` or `WarningPolicy` (as attribute, name, or a call of either). -/
theorem b507_iff (e : Env) (c : CallView) (hc : e.call? = some c) (r : PRaw) :
    b507 e = .ok (some r) ↔
      (importedLike e.st "paramiko" = true ∧ last e.qual = "set_missing_host_key_policy".toList ∧
        ∃ a rest p, c.args = a :: rest ∧ policyName a = some p ∧
          (p = "AutoAddPolicy".toList ∨ p = "WarningPolicy".toList)) ∧
      r = { sev := .high, conf := .medium, loc := .kw ["set_missing_host_key_policy"] } := by
  rw [b507_table e c hc, ok_ite_some_iff]
  apply and_congr _ Iff.rfl
  simp only [Spec.Crypto.b507, Bool.and_eq_true, beq_iff_eq, and_assoc]
  apply and_congr Iff.rfl
  apply and_congr Iff.rfl
  cases c.args with
  | nil => simp
  | cons a rest =>
    cases hp : policyName a with
    | none => simp [hp]
    | some p => simp [hp, autoAccepting]

/-- **Secure variant.** `set_missing_host_key_policy(paramiko.RejectPolicy)` — any policy other
than the two auto-accepting ones — is silent. -/
theorem b507_secure_variant_silent (e : Env) (c : CallView) (hc : e.call? = some c)
    (hp : ∀ a rest p, c.args = a :: rest → policyName a = some p → p ∉ autoAccepting) :
    b507 e = .ok none := by
  rw [b507_table e c hc, ok_ite_none_iff]
  simp only [Spec.Crypto.b507]
  cases hargs : c.args with
  | nil => simp
  | cons a rest =>
    cases hpn : policyName a with
    | none => simp [hpn]
    | some p =>
      have := hp a rest p hargs hpn
      simp [hpn, this]

/-! ## B508 / B509 — SNMP -/

/-- **B508 table.** -/
theorem b508_table (e : Env) (c : CallView) (kws : Kws) (hc : e.call? = some c) (hk : c.callKeywords = .ok kws) :
    b508 e = .ok (if Spec.Crypto.b508 e.qual kws
                  then some { sev := .medium, conf := .high, loc := .kw ["CommunityData"] } else none) := by
  have h01 : kwIn kws "mpModel" [.int 0, .int 1] = (kwIn kws "mpModel" [.int 0] || kwIn kws "mpModel" [.int 1]) := by
    simp only [kwIn]
    cases kw kws "mpModel" with
    | none => rfl
    | some v => cases h : v.isNone <;> simp [h]
  simp only [Plugins.b508, hc, checkArg_ok hk, bind, Except.bind, pure, Except.pure, Spec.Crypto.b508,
    isTrue_checkVal, h01]
  by_cases h1 : (e.qual == "pysnmp.hlapi.CommunityData".toList) = true <;> simp only [h1] <;> table_cases

/-- **B508 fires iff** the call is `pysnmp.hlapi.CommunityData` with `mpModel` equal to 0 or 1. -/
theorem b508_iff (e : Env) (c : CallView) (kws : Kws) (hc : e.call? = some c) (hk : c.callKeywords = .ok kws)
    (r : PRaw) :
    b508 e = .ok (some r) ↔
      (e.qual = "pysnmp.hlapi.CommunityData".toList ∧
        ∃ v, kw kws "mpModel" = some v ∧ (v.beq (.int 0) = true ∨ v.beq (.int 1) = true)) ∧
      r = { sev := .medium, conf := .high, loc := .kw ["CommunityData"] } := by
  rw [b508_table e c kws hc hk, ok_ite_some_iff]
  apply and_congr _ Iff.rfl
  simp only [Spec.Crypto.b508, kwIn, Bool.and_eq_true, beq_iff_eq]
  apply and_congr Iff.rfl
  cases kw kws "mpModel" with
  | none => simp
  | some v => cases v <;> simp [PyVal.isNone, PyVal.beq]

/-- **Secure variant.** `CommunityData` without `mpModel`, or with a known value other than 0/1, is silent. -/
theorem b508_secure_variant_silent (e : Env) (c : CallView) (kws : Kws) (hc : e.call? = some c)
    (hk : c.callKeywords = .ok kws)
    (hv : ∀ v, kw kws "mpModel" = some v → v.beq (.int 0) = false ∧ v.beq (.int 1) = false) :
    b508 e = .ok none := by
  rw [b508_table e c kws hc hk, ok_ite_none_iff]
  simp only [Spec.Crypto.b508, kwIn]
  cases h : kw kws "mpModel" with
  | none => simp
  | some v => have := hv v h; simp_all

/-- **B509 table** (full, after /repo fix 60708c5): reported iff the `UsmUserData` call is not
encrypted — it lacks an authentication key (2nd positional or `authKey=`) or a privacy key (3rd
positional or `privKey=`).  Total in the arguments: keyword *names* are read, nothing is evaluated
(`hk` only ties the node's keyword names to the specification's view of the call). -/
theorem b509_table (e : Env) (c : CallView) (kws : Kws) (hc : e.call? = some c)
    (hk : c.callKeywords = .ok kws) :
    b509 e = .ok (if Spec.Crypto.b509 e.qual c.args.length kws
                  then some { sev := .medium, conf := .high, loc := .kw ["UsmUserData"] } else none) := by
  have h2 : decide (c.args.length > 1) = decide (2 ≤ c.args.length) := by
    by_cases h : 2 ≤ c.args.length <;> simp [h] <;> omega
  have h3 : decide (c.args.length > 2) = decide (3 ≤ c.args.length) := by
    by_cases h : 3 ≤ c.args.length <;> simp [h] <;> omega
  simp only [Plugins.b509, hc, pure, Except.pure, Spec.Crypto.b509, usmEncrypted, kw_isSome hk, h2, h3]
  by_cases h1 : (e.qual == "pysnmp.hlapi.UsmUserData".toList) = true
  · simp only [h1, if_true, Bool.true_and]
    split <;> rename_i hb <;> simp only [hb] <;> simp
  · simp only [h1]
    simp

/-- **B509 fires iff** the call is `UsmUserData` and is not authPriv. -/
theorem b509_iff (e : Env) (c : CallView) (kws : Kws) (hc : e.call? = some c) (hk : c.callKeywords = .ok kws)
    (r : PRaw) :
    b509 e = .ok (some r) ↔
      (e.qual = "pysnmp.hlapi.UsmUserData".toList ∧ usmEncrypted c.args.length kws = false) ∧
      r = { sev := .medium, conf := .high, loc := .kw ["UsmUserData"] } := by
  rw [b509_table e c kws hc hk, ok_ite_some_iff]
  simp only [Spec.Crypto.b509, Bool.and_eq_true, beq_iff_eq, Bool.not_eq_true']

/-- **Secure variant**, positional or keyword placement: a call passing both keys is silent. -/
theorem b509_secure_variant_silent (e : Env) (c : CallView) (kws : Kws) (hc : e.call? = some c)
    (hk : c.callKeywords = .ok kws) (henc : usmEncrypted c.args.length kws = true) :
    b509 e = .ok none := by
  rw [b509_table e c kws hc hk, ok_ite_none_iff]
  simp [Spec.Crypto.b509, henc]

/-! ## B505 — weak keys -/

/-- **B505 table, `cryptography` DSA/RSA.** For a function the table maps to DSA or RSA (with its
positional index `p`), the graded size is the `key_size` keyword if truthy, else the positional
argument if truthy, else 2048 (`hpyc`: the two function tables key different functions — see
`gen_key_tables_wellformed`). -/
theorem b505_cio_table (T : CryptoTables) (cfg : CfgVal) (e : Env) (c : CallView) (kt : Str) (p : Nat) (kv pv : PyVal)
    (hc : e.call? = some c)
    (hkt : assocGet T.cioFuncKeyType e.qual = some kt) (hdr : kt = "DSA".toList ∨ kt = "RSA".toList)
    (hp : assocGet T.cioArgPosition kt = some p)
    (hkv : c.argValue "key_size" = .ok kv) (hpv : kv.truthy = false → c.argAt p = .ok pv)
    (hpyc : assocGet T.pycFuncKeyType e.qual = none) :
    b505 T cfg e = classifyKeySize cfg kt (kv.por (pv.por (.int 2048))) := by
  have hk : (kt == "DSA".toList || kt == "RSA".toList) = true := by
    rcases hdr with h | h <;> simp [h]
  have hsz : keySizeArg c "key_size" (pure p) = .ok (kv.por (pv.por (.int 2048))) := by
    cases htr : kv.truthy with
    | true => simp [keySizeArg, hkv, htr, bind, Except.bind, pure, Except.pure, PyVal.por]
    | false =>
      simp only [keySizeArg, hkv, hpv htr, htr, bind, Except.bind, pure, Except.pure, PyVal.por]
      table_cases
  simp only [Plugins.b505, hc, b505Cio, hkt, hp, hk, hsz, bind, Except.bind, if_true]
  cases hcl : classifyKeySize cfg kt (kv.por (pv.por (.int 2048))) with
  | error x => rfl
  | ok r =>
    cases r with
    | some x => rfl
    | none => simp [b505Pyc, hpyc, pure, Except.pure]

/-- **B505 table, pycrypto / pycryptodome** (`bits=` or first positional argument, default 2048). -/
theorem b505_pyc_table (T : CryptoTables) (cfg : CfgVal) (e : Env) (c : CallView) (kt : Str) (kv pv : PyVal)
    (hc : e.call? = some c)
    (hcio : assocGet T.cioFuncKeyType e.qual = none)
    (hkt : assocGet T.pycFuncKeyType e.qual = some kt) (hne : kt ≠ [])
    (hkv : c.argValue "bits" = .ok kv) (hpv : kv.truthy = false → c.argAt 0 = .ok pv) :
    b505 T cfg e = classifyKeySize cfg kt (kv.por (pv.por (.int 2048))) := by
  have hsz : keySizeArg c "bits" (pure 0) = .ok (kv.por (pv.por (.int 2048))) := by
    cases htr : kv.truthy with
    | true => simp [keySizeArg, hkv, htr, bind, Except.bind, pure, Except.pure, PyVal.por]
    | false =>
      simp only [keySizeArg, hkv, hpv htr, htr, bind, Except.bind, pure, Except.pure, PyVal.por]
      table_cases
  have hne' : kt.isEmpty = false := by cases kt <;> simp_all
  simp only [Plugins.b505, hc, b505Cio, hcio, b505Pyc, hkt, hne', hsz, bind, Except.bind]
  simp [pure, Except.pure]

/-- **B505 table, `cryptography` EC.** The curve is the `curve` keyword if truthy, else the
positional argument; a curve named in the table has its size, anything else — other names, unknown
expressions, wrongly-typed literals such as `[1]` — counts as 224 bits (no `TypeError`: /repo fix 6e22cbb). -/
theorem b505_ec_table (T : CryptoTables) (cfg : CfgVal) (e : Env) (c : CallView) (p : Nat) (cv : PyVal)
    (args : List PyVal) (hc : e.call? = some c)
    (hkt : assocGet T.cioFuncKeyType e.qual = some "EC".toList)
    (hp : assocGet T.cioArgPosition "EC".toList = some p)
    (hcv : c.argValue "curve" = .ok cv) (hargs : cv.truthy = false → c.callArgs = .ok args)
    (hpyc : assocGet T.pycFuncKeyType e.qual = none) :
    b505 T cfg e = classifyKeySize cfg "EC".toList
      (.int (match cv.por ((args[p]?).getD (.int 0)) with | .str s => curveSize T s | _ => 224)) := by
  have hcurve : curveArg c (pure p) = .ok (cv.por ((args[p]?).getD (.int 0))) := by
    cases htr : cv.truthy with
    | true => simp [curveArg, hcv, PyVal.por, htr, bind, Except.bind, pure, Except.pure]
    | false => simp [curveArg, hcv, PyVal.por, htr, hargs htr, bind, Except.bind, pure, Except.pure]
  have h1 : ("EC".toList == "DSA".toList || "EC".toList == "RSA".toList) = false := by decide
  have h2 : ("EC".toList == "EC".toList) = true := by decide
  have hsz : curveSizeOf T (cv.por ((args[p]?).getD (.int 0)))
      = (match cv.por ((args[p]?).getD (.int 0)) with | .str s => curveSize T s | _ => 224) := by
    unfold curveSizeOf curveSize; split <;> simp_all
  simp only [Plugins.b505, hc, b505Cio, hkt, hp, h1, h2, hcurve, hsz, bind, Except.bind, Bool.false_eq_true,
    if_false, if_true]
  cases hcl : classifyKeySize cfg "EC".toList
      (.int (match cv.por ((args[p]?).getD (.int 0)) with | .str s => curveSize T s | _ => 224)) with
  | error x => rfl
  | ok r =>
    cases r with
    | some x => rfl
    | none => simp [b505Pyc, hpyc, pure, Except.pure]

/-- **B505, literal key size by keyword.** `…generate_private_key(key_size=k)` with an integer
literal `k ≠ 0` is graded against the configured thresholds of its key type: HIGH below the HIGH
threshold, MEDIUM below the MEDIUM threshold, nothing otherwise — for ANY integer thresholds. -/
theorem b505_keyword_size (T : CryptoTables) (cfg : CfgVal) (th : Thresholds) (e : Env) (c : CallView)
    (K : KeyType) (p : Nat) (k : Int) (hc : e.call? = some c) (hK : K = .dsa ∨ K = .rsa)
    (hkt : assocGet T.cioFuncKeyType e.qual = some K.name) (hp : assocGet T.cioArgPosition K.name = some p)
    (hkv : c.argValue "key_size" = .ok (.int k)) (hk0 : k ≠ 0)
    (hpyc : assocGet T.pycFuncKeyType e.qual = none) (ht : HasThresholds cfg th) :
    b505 T cfg e = .ok ((Spec.Crypto.b505 th K k).map b505Raw) := by
  have hdr : K.name = "DSA".toList ∨ K.name = "RSA".toList := by rcases hK with h | h <;> simp [h, KeyType.name]
  have htr : (PyVal.int k).truthy = true := by simp [PyVal.truthy, hk0]
  rw [b505_cio_table T cfg e c K.name p (.int k) .none hc hkt hdr hp hkv (by simp [htr]) hpyc]
  simp only [PyVal.por, htr, if_true]
  exact classify_int ht K k

/-- **B505, literal key size by position** (keyword absent or falsy). -/
theorem b505_positional_size (T : CryptoTables) (cfg : CfgVal) (th : Thresholds) (e : Env) (c : CallView)
    (K : KeyType) (p : Nat) (kv : PyVal) (k : Int) (hc : e.call? = some c) (hK : K = .dsa ∨ K = .rsa)
    (hkt : assocGet T.cioFuncKeyType e.qual = some K.name) (hp : assocGet T.cioArgPosition K.name = some p)
    (hkv : c.argValue "key_size" = .ok kv) (hfalsy : kv.truthy = false)
    (hpv : c.argAt p = .ok (.int k)) (hk0 : k ≠ 0)
    (hpyc : assocGet T.pycFuncKeyType e.qual = none) (ht : HasThresholds cfg th) :
    b505 T cfg e = .ok ((Spec.Crypto.b505 th K k).map b505Raw) := by
  have hdr : K.name = "DSA".toList ∨ K.name = "RSA".toList := by rcases hK with h | h <;> simp [h, KeyType.name]
  have htr : (PyVal.int k).truthy = true := by simp [PyVal.truthy, hk0]
  rw [b505_cio_table T cfg e c K.name p kv (.int k) hc hkt hdr hp hkv (fun _ => hpv) hpyc]
  simp only [PyVal.por, htr, hfalsy, if_true, Bool.false_eq_true, if_false]
  exact classify_int ht K k

/-- **B505, non-literal key size.** A key size given as a name or attribute (`key_size=BITS`,
`key_size=settings.BITS`) — any non-empty string as the context sees it — is never reported. -/
theorem b505_nonliteral_silent (T : CryptoTables) (cfg : CfgVal) (e : Env) (c : CallView)
    (kt : Str) (p : Nat) (s : Str) (hc : e.call? = some c)
    (hkt : assocGet T.cioFuncKeyType e.qual = some kt) (hdr : kt = "DSA".toList ∨ kt = "RSA".toList)
    (hp : assocGet T.cioArgPosition kt = some p)
    (hkv : c.argValue "key_size" = .ok (.str s)) (hs : s ≠ [])
    (hpyc : assocGet T.pycFuncKeyType e.qual = none) :
    b505 T cfg e = .ok none := by
  have htr : (PyVal.str s).truthy = true := by cases s <;> simp_all [PyVal.truthy]
  rw [b505_cio_table T cfg e c kt p (.str s) .none hc hkt hdr hp hkv (by simp [htr]) hpyc]
  simp only [PyVal.por, htr, if_true]
  exact classify_str cfg kt s

/-- **B505, named curve by keyword.** `ec.generate_private_key(curve=ec.<NAME>)` is graded by the
table size of `<NAME>` (224 when the table does not know it) against the EC thresholds. -/
theorem b505_ec_curve (T : CryptoTables) (cfg : CfgVal) (th : Thresholds) (e : Env) (c : CallView) (p : Nat)
    (s : Str) (hc : e.call? = some c)
    (hkt : assocGet T.cioFuncKeyType e.qual = some "EC".toList)
    (hp : assocGet T.cioArgPosition "EC".toList = some p)
    (hcv : c.argValue "curve" = .ok (.str s)) (hs : s ≠ [])
    (hpyc : assocGet T.pycFuncKeyType e.qual = none) (ht : HasThresholds cfg th) :
    b505 T cfg e = .ok ((Spec.Crypto.b505 th .ec (curveSize T s)).map b505Raw) := by
  have htr : (PyVal.str s).truthy = true := by cases s <;> simp_all [PyVal.truthy]
  have := b505_ec_table T cfg e c p (.str s) [] hc hkt hp hcv (by simp [htr]) hpyc
  simp only [PyVal.por, htr, if_true] at this
  rw [this]
  exact classify_int ht .ec _

/-- **Severity never increases as the key grows** — for ANY thresholds (coherent or not) and any
two sizes `k₁ ≤ k₂`, on the grading itself. -/
theorem b505_grading_antitone (th : Thresholds) (K : KeyType) {k₁ k₂ : Int} (hle : k₁ ≤ k₂) :
    sevLevel (Spec.Crypto.b505 th K k₂) ≤ sevLevel (Spec.Crypto.b505 th K k₁) :=
  keySeverity_antitone _ _ hle

/-- **Severity never increases as the key grows, partial (call level).** Two calls of the same
DSA/RSA generator with literal sizes `0 < k₁ ≤ k₂` by keyword: the finding for `k₂` is at most as
severe as the one for `k₁` (no finding counting as least), for ANY integer thresholds.  The guard
`0 < k₁` is needed: see `NEG_keysize_zero`. -/
theorem b505_antitone_partial (T : CryptoTables) (cfg : CfgVal) (th : Thresholds) (e₁ e₂ : Env) (c₁ c₂ : CallView)
    (K : KeyType) (p : Nat) (k₁ k₂ : Int) (hc₁ : e₁.call? = some c₁) (hc₂ : e₂.call? = some c₂)
    (hK : K = .dsa ∨ K = .rsa) (hq : e₁.qual = e₂.qual)
    (hkt : assocGet T.cioFuncKeyType e₁.qual = some K.name) (hp : assocGet T.cioArgPosition K.name = some p)
    (hkv₁ : c₁.argValue "key_size" = .ok (.int k₁)) (hkv₂ : c₂.argValue "key_size" = .ok (.int k₂))
    (hpyc : assocGet T.pycFuncKeyType e₁.qual = none) (ht : HasThresholds cfg th)
    (h0 : 0 < k₁) (hle : k₁ ≤ k₂) :
    ∃ r₁ r₂, b505 T cfg e₁ = .ok r₁ ∧ b505 T cfg e₂ = .ok r₂ ∧ resultLevel r₂ ≤ resultLevel r₁ := by
  refine ⟨_, _, b505_keyword_size T cfg th e₁ c₁ K p k₁ hc₁ hK hkt hp hkv₁ (by omega) hpyc ht,
    b505_keyword_size T cfg th e₂ c₂ K p k₂ hc₂ hK (hq ▸ hkt) hp hkv₂ (by omega) (hq ▸ hpyc) ht, ?_⟩
  have := b505_grading_antitone th K hle
  simpa [resultLevel, Option.map_map, Function.comp_def, b505Raw] using this

/-- **Secure variant.** With coherent thresholds (HIGH ≤ MEDIUM) a key at or above the MEDIUM
threshold is not reported. -/
theorem b505_secure_variant_silent (th : Thresholds) (hco : th.Coherent) (K : KeyType) (k : Int)
    (hk : th.medium K ≤ k) : Spec.Crypto.b505 th K k = none := by
  rw [Spec.Crypto.b505, keySeverity_none]
  obtain ⟨h1, h2, h3⟩ := hco
  cases K <;> simp only [Thresholds.high, Thresholds.medium] at hk ⊢ <;> omega

/-- the grading in words -/
theorem b505_grading (th : Thresholds) (K : KeyType) (k : Int) :
    (Spec.Crypto.b505 th K k = some .high ↔ k < th.high K) ∧
    (Spec.Crypto.b505 th K k = some .medium ↔ th.high K ≤ k ∧ k < th.medium K) ∧
    (Spec.Crypto.b505 th K k = none ↔ th.high K ≤ k ∧ th.medium K ≤ k) :=
  ⟨keySeverity_high, keySeverity_medium, keySeverity_none⟩

/-! ## Instances over the tables and defaults regenerated from /repo on this run -/

/-- the default settings of a plugin as generated from its `gen_config` -/
def genCfg (name : String) : CfgVal := PluginCfg.get Gen.pluginDefaults name

/-- **Default thresholds**: the generated `weak_cryptographic_key` defaults are integers with
HIGH ≤ MEDIUM for every key type and are at least the published 1024/2048 (DSA, RSA) and 160/224 (EC). -/
theorem gen_thresholds_ok : thresholdsOk (genCfg "weak_cryptographic_key") = true := by decide +kernel

/-- **Default protocol list** ⊇ the published list of insecure protocol constants. -/
theorem gen_bad_protocols_superset : badProtocolsOk (genCfg "ssl_with_bad_version") = true := by decide +kernel

/-- **In-module tables**: the weak-hash tables contain the published names; the HTTP tables contain
the seven verbs (and, for httpx, `request`/`stream`/`Client`/`AsyncClient`), identically for B501
and B113. -/
theorem gen_name_tables_superset :
    (["md4", "md5", "sha", "sha1"].all fun h => genCryptoTables.weakHashes.contains h.toList) = true ∧
    (["METHOD_CRYPT", "METHOD_MD5", "METHOD_BLOWFISH"].all fun h => genCryptoTables.weakCryptHashes.contains h.toList) = true ∧
    (["get", "options", "head", "post", "put", "patch", "delete"].all fun v =>
        genCryptoTables.b501HttpVerbs.contains v.toList && genCryptoTables.b113HttpVerbs.contains v.toList &&
        genCryptoTables.b501HttpxAttrs.contains v.toList && genCryptoTables.b113HttpxAttrs.contains v.toList) = true ∧
    (["request", "stream", "Client", "AsyncClient"].all fun v =>
        genCryptoTables.b501HttpxAttrs.contains v.toList && genCryptoTables.b113HttpxAttrs.contains v.toList) = true := by
  decide +kernel

/-- **Key tables are well-formed**: every `cryptography` function maps to DSA/RSA/EC and that key
type has a positional index (no `KeyError` inside the check), pycrypto functions map to DSA/RSA, the
two function tables key different functions (the `hpyc` hypothesis of the B505 theorems), the
published generators are present with their published positional index, and every curve size is positive. -/
theorem gen_key_tables_wellformed :
    (genCryptoTables.cioFuncKeyType.all fun (_, kt) =>
        (kt == "DSA".toList || kt == "RSA".toList || kt == "EC".toList) &&
        (assocGet genCryptoTables.cioArgPosition kt).isSome) = true ∧
    (genCryptoTables.pycFuncKeyType.all fun (_, kt) => kt == "DSA".toList || kt == "RSA".toList) = true ∧
    (genCryptoTables.cioFuncKeyType.all fun (q, _) => (assocGet genCryptoTables.pycFuncKeyType q).isNone) = true ∧
    (genCryptoTables.pycFuncKeyType.all fun (q, _) => (assocGet genCryptoTables.cioFuncKeyType q).isNone) = true ∧
    assocGet genCryptoTables.cioFuncKeyType "cryptography.hazmat.primitives.asymmetric.dsa.generate_private_key".toList = some "DSA".toList ∧
    assocGet genCryptoTables.cioFuncKeyType "cryptography.hazmat.primitives.asymmetric.rsa.generate_private_key".toList = some "RSA".toList ∧
    assocGet genCryptoTables.cioFuncKeyType "cryptography.hazmat.primitives.asymmetric.ec.generate_private_key".toList = some "EC".toList ∧
    (["Crypto.PublicKey.DSA.generate", "Cryptodome.PublicKey.DSA.generate"].all fun q =>
        assocGet genCryptoTables.pycFuncKeyType q.toList == some "DSA".toList) = true ∧
    (["Crypto.PublicKey.RSA.generate", "Cryptodome.PublicKey.RSA.generate"].all fun q =>
        assocGet genCryptoTables.pycFuncKeyType q.toList == some "RSA".toList) = true ∧
    assocGet genCryptoTables.cioArgPosition "DSA".toList = some 0 ∧
    assocGet genCryptoTables.cioArgPosition "RSA".toList = some 1 ∧
    assocGet genCryptoTables.cioArgPosition "EC".toList = some 0 ∧
    (genCryptoTables.curveKeySizes.all fun (_, n) => decide (0 < n)) = true := by
  decide +kernel

/-- **Weak curves are known**: the curves below the published EC MEDIUM threshold (224) keep a table
size below it, and the 224-bit-and-larger NIST curves a size of at least 224. -/
theorem gen_curve_sizes :
    (["SECP192R1", "SECT163K1", "SECT163R2"].all fun c => decide (curveSize genCryptoTables c.toList < 224)) = true ∧
    (["SECP224R1", "SECP256R1", "SECP384R1", "SECP521R1"].all fun c => decide (224 ≤ curveSize genCryptoTables c.toList)) = true := by
  decide +kernel

/-! ## Kernel-checked witnesses (replayed on the real code by `harness/props/c15.py`) -/

/-- **Observation (key size 0).** `rsa.generate_private_key(key_size=0)` is *not* reported while
`key_size=1` is HIGH: `0` is falsy, so the `or`-chain falls through to the default 2048.  Severity
is therefore not antitone at 0 — the reason for the guard `0 < k₁` of `b505_antitone_partial`.
(0 is not a usable key size; the specification ranges over positive sizes.) -/
theorem NEG_keysize_zero :
    b505 genCryptoTables (genCfg "weak_cryptographic_key") (callEnv rsaPath [] [("key_size", mkInt 0)]) = .ok none ∧
    b505 genCryptoTables (genCfg "weak_cryptographic_key") (callEnv rsaPath [] [("key_size", mkInt 1)])
      = .ok (some (b505Raw .high)) := by
  constructor <;> decide +kernel

/-- **Observation (statically unknown timeout).** `requests.get(u, timeout=f())` is reported as
"without timeout": a keyword value that is not a literal, name or attribute evaluates to `None` and
is indistinguishable from an absent keyword — outside the guard of `b113_documented_partial`. -/
theorem NEG_timeout_opaque :
    b113 genCryptoTables (callEnv ["requests", "get"] [mkName "u"] [("timeout", mkCall (mkName "f") [] [])])
      = .ok (some b113Raw) ∧
    b113 genCryptoTables (callEnv ["requests", "get"] [mkName "u"] [("timeout", mkInt 5)]) = .ok none := by
  constructor <;> decide +kernel

/-- **Regression witness (fixed finding `C15-b509-keyword-keys`, /repo 60708c5).** An *encrypted*
SNMPv3 user passing its keys by keyword, `UsmUserData("u", authKey="a", privKey="p")`: the check as it
was (`call_args_count < 3`, `b509PositionalOnly`) reported it although the specification classifies
it as encrypted; the repaired check is silent. -/
theorem NEG_b509_positional_only :
    b509PositionalOnly (callEnv ["pysnmp", "hlapi", "UsmUserData"] [mkStr "u"] [("authKey", mkStr "a"), ("privKey", mkStr "p")])
      = .ok (some { sev := .medium, conf := .high, loc := .kw ["UsmUserData"] }) ∧
    Spec.Crypto.b509 "pysnmp.hlapi.UsmUserData".toList 1
      [(some "authKey".toList, .str "a".toList), (some "privKey".toList, .str "p".toList)] = false ∧
    b509 (callEnv ["pysnmp", "hlapi", "UsmUserData"] [mkStr "u"] [("authKey", mkStr "a"), ("privKey", mkStr "p")]) = .ok none := by
  refine ⟨?_, ?_, ?_⟩ <;> decide +kernel

/-! ### No-crash regressions (former C06 crash witnesses; /repo fixes 6e22cbb and the set-display fix) -/

/-- `RSA.generate([1])`: a list-valued key size used to raise `TypeError` (`[1] < 1024`); now ungraded -/
theorem REG_list_keysize_no_crash :
    b505 genCryptoTables (genCfg "weak_cryptographic_key")
      (callEnv ["Crypto", "PublicKey", "RSA", "generate"] [.mk "List".toList wpos [] [("elts".toList, true, [mkInt 1])]] [])
      = .ok none := by
  decide +kernel

/-- `ec.generate_private_key([1])`: an unhashable curve used to raise in `curve in curve_key_sizes`;
now it counts as an unknown curve (224 bits, silent under the defaults) -/
theorem REG_unhashable_curve_no_crash :
    b505 genCryptoTables (genCfg "weak_cryptographic_key")
      (callEnv ["cryptography", "hazmat", "primitives", "asymmetric", "ec", "generate_private_key"]
        [.mk "List".toList wpos [] [("elts".toList, true, [mkInt 1])]] [])
      = .ok none := by
  decide +kernel

/-- `{[]}`: `_get_literal_value` used to raise `TypeError`; now the display is "not a literal" -/
theorem REG_set_display_no_crash : literalValue setOfEmptyList = .ok .none := literalValue_setOfEmptyList

/-- **`_classify_key_size` is total** under well-formed settings: whatever the size argument
evaluates to (list, tuple, bytes, complex, set, dict, …), no exception. -/
theorem b505_classify_total {cfg : CfgVal} {t : Thresholds} (ht : HasThresholds cfg t) (K : KeyType) (v : PyVal) :
    ∃ r, classifyKeySize cfg K.name v = .ok r := classify_total ht K v

/-! ## Non-vacuity: the hypotheses of the table theorems are met by concrete calls -/

example : b501 genCryptoTables (callEnv ["requests", "get"] [mkName "u"] [("verify", mkConst (.bool false))])
    = .ok (some { sev := .high, conf := .high, loc := .kw ["verify"] }) := by decide +kernel
example : b501 genCryptoTables (callEnv ["httpx", "Client"] [] [("verify", mkConst (.bool true))]) = .ok none := by
  decide +kernel
example : b324 genCryptoTables (callEnv ["hashlib", "new"] [mkStr "MD5"] []) = .ok (some (b324Raw .high)) := by
  decide +kernel
example : b324 genCryptoTables (callEnv ["hashlib", "md5"] [] [("usedforsecurity", mkConst (.bool false))]) = .ok none := by
  decide +kernel
example : b324 genCryptoTables (callEnv ["crypt", "crypt"] [mkStr "pw"] [("salt", mkAttr (mkName "crypt") "METHOD_MD5")])
    = .ok (some (b324Raw .medium)) := by decide +kernel
example : b502 (genCfg "ssl_with_bad_version")
    (callEnv ["ssl", "wrap_socket"] [] [("ssl_version", mkAttr (mkName "ssl") "PROTOCOL_SSLv3")])
    = .ok (some { sev := .high, conf := .high, loc := .kw ["ssl_version"] }) := by decide +kernel
example : b504 (callEnv ["ssl", "wrap_socket"] [] []) = .ok (some { sev := .low, conf := .medium, loc := .kw ["ssl_version"] }) := by
  decide +kernel
example : b507 (callEnv ["client", "set_missing_host_key_policy"] [mkAttr (mkName "paramiko") "AutoAddPolicy"] [] ["paramiko"])
    = .ok (some { sev := .high, conf := .medium, loc := .kw ["set_missing_host_key_policy"] }) := by decide +kernel
example : b507 (callEnv ["client", "set_missing_host_key_policy"] [mkAttr (mkName "paramiko") "RejectPolicy"] [] ["paramiko"])
    = .ok none := by decide +kernel
example : b508 (callEnv ["pysnmp", "hlapi", "CommunityData"] [mkStr "public"] [("mpModel", mkInt 0)])
    = .ok (some { sev := .medium, conf := .high, loc := .kw ["CommunityData"] }) := by decide +kernel
example : b509 (callEnv ["pysnmp", "hlapi", "UsmUserData"] [mkStr "u", mkStr "a", mkStr "p"] []) = .ok none := by
  decide +kernel
example : b509 (callEnv ["pysnmp", "hlapi", "UsmUserData"] [mkStr "u"] [("authKey", mkStr "a")])
    = .ok (some { sev := .medium, conf := .high, loc := .kw ["UsmUserData"] }) := by decide +kernel
/-- boundary values against the generated defaults: 1023 HIGH, 1024 and 2047 MEDIUM, 2048 silent -/
example :
    [1023, 1024, 2047, 2048].map (fun k =>
      b505 genCryptoTables (genCfg "weak_cryptographic_key") (callEnv rsaPath [] [("key_size", mkInt k)]))
    = [.ok (some (b505Raw .high)), .ok (some (b505Raw .medium)), .ok (some (b505Raw .medium)), .ok none] := by
  decide +kernel
/-- the hypotheses of `b505_keyword_size` hold for the generated tables and defaults -/
example : ∃ th, HasThresholds (genCfg "weak_cryptographic_key") th ∧
    assocGet genCryptoTables.cioFuncKeyType (callEnv rsaPath [] [("key_size", mkInt 512)]).qual = some KeyType.rsa.name ∧
    assocGet genCryptoTables.pycFuncKeyType (callEnv rsaPath [] [("key_size", mkInt 512)]).qual = none := by
  obtain ⟨t, ht, _⟩ := thresholdsOk_spec gen_thresholds_ok
  exact ⟨t, ht, by decide +kernel, by decide +kernel⟩

/-! ## A `**mapping` among the keywords hides nothing

Every check of this family reads its decisive keyword by name (`timeout`, `verify`, `usedforsecurity`, `ssl_version`, `key_size`, `mpModel` …). -/

/-- **keywords written after (or before) a `**mapping` expansion count as before**: inserting an expansion anywhere among the keywords of a call changes neither the
value read for any name, nor whether the name is present, nor the verdict of a value test (seeded change C15-m18 stopped collecting keywords at the first expansion:
`requests.get(url, **opts, verify=False)` lost its B501) -/
theorem expansion_hides_no_keyword (c c' : CallView) (pre post : List Node) (star : Node) (x : PyVal) (name : String) (values : List PyVal)
    (hk : c.keywords = pre ++ post) (hk' : c'.keywords = pre ++ star :: post) (hv : CallView.kwEntry star = .ok (none, x)) :
    c'.argValue name = c.argValue name ∧ c'.hasKw name = c.hasKw name ∧ c'.checkArg name values = c.checkArg name values :=
  ⟨CallView.argValue_ignores_expansion c c' pre post star x name hk hk' hv,
   CallView.hasKw_ignores_expansion c c' pre post star x name hk hk' hv,
   CallView.checkArg_ignores_expansion c c' pre post star x name values hk hk' hv⟩

/-- non-vacuity: the keyword node of `**opts` is such a `star` -/
example : CallView.kwEntry (Node.mk "keyword".toList none [] [("value".toList, false, [Node.mk "Name".toList (some ⟨1, 1, 0, 4⟩) [("id".toList, Atom.str "opts".toList)] []])])
    = .ok (none, .str "opts".toList) := by
  rfl

end Props.C15
