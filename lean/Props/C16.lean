import Bandit.Plugins.Misc
import Bandit.Proofs.C01
import Bandit.Proofs.Names2
import Bandit.Gen.Regexes
import Bandit.Gen.Defaults
/-!
# C16 — Hard-coded secret, temp-path, bind-all, permission checks match patterns
-/
namespace Props.C16
open Bandit Bandit.Plugins

/-! ## B103: the 12-bit (indeed every) mode table -/

/-- the documented rule: a mode is reported iff it grants group or world write or execute
(`S_IWGRP`=0o20, `S_IXGRP`=0o10, `S_IWOTH`=0o2, `S_IXOTH`=0o1); HIGH iff world-writable -/
def Spec.dangerous (m : Nat) : Bool := m.testBit 4 || m.testBit 3 || m.testBit 1 || m.testBit 0
def Spec.worldWritable (m : Nat) : Bool := m.testBit 1

theorem and_low (m : Nat) : m &&& 0o33 = (m % 64) &&& 0o33 := by
  have h1 : (m &&& 0o33) % 64 = (m % 64) &&& (0o33 % 64) := Nat.and_mod_two_pow (n := 6)
  have h2 : m &&& 0o33 ≤ 0o33 := Nat.and_le_right
  have h3 : (m &&& 0o33) % 64 = m &&& 0o33 := Nat.mod_eq_of_lt (by omega)
  rw [← h3, h1]

theorem testBit_low (m i : Nat) (hi : i < 6) : m.testBit i = (m % 64).testBit i := by
  have := Nat.testBit_mod_two_pow m 6 i
  simp [hi] at this
  exact this.symm

/-- **Mode table**, for every natural number (the 4096 twelve-bit modes included): the bit test of
`_stat_is_dangerous` is the documented rule — proved by reducing to the low six bits and letting the
kernel enumerate all 64 residues. -/
theorem b103_mode_table (m : Nat) :
    statDangerous m = Spec.dangerous m ∧ ((m &&& 2 != 0) = Spec.worldWritable m) := by
  have key0 : (List.range 64).all (fun r => ((r &&& 0o33 != 0) == Spec.dangerous r) && ((r &&& 2 != 0) == Spec.worldWritable r)) = true := by
    decide +kernel
  have hlt : m % 64 < 64 := Nat.mod_lt _ (by decide)
  have k0 := List.all_eq_true.mp key0 (m % 64) (List.mem_range.mpr hlt)
  have k : ((m % 64 &&& 0o33 != 0) = Spec.dangerous (m % 64)) ∧ ((m % 64 &&& 2 != 0) = Spec.worldWritable (m % 64)) := by
    simpa using k0
  constructor
  · unfold statDangerous Spec.dangerous
    rw [and_low, testBit_low m 4 (by decide), testBit_low m 3 (by decide), testBit_low m 1 (by decide),
        testBit_low m 0 (by decide)]
    exact k.1
  · unfold Spec.worldWritable
    have h2 : m &&& 2 = (m % 64) &&& 2 := by
      have h1 : (m &&& 2) % 64 = (m % 64) &&& (2 % 64) := Nat.and_mod_two_pow (n := 6)
      have hle : m &&& 2 ≤ 2 := Nat.and_le_right
      have h3 : (m &&& 2) % 64 = m &&& 2 := Nat.mod_eq_of_lt (by omega)
      rw [← h3, h1]
    rw [h2, testBit_low m 1 (by decide)]
    exact k.2

/-- the whole 12-bit table, enumerated by the kernel (redundant with the theorem above; kept as an
independent check) -/
theorem b103_all_4096 :
    (List.range 4096).all (fun m => statDangerous m == Spec.dangerous m) = true := by
  decide +kernel

/-! ## The password-name pattern -/

/-- the model of `RE_CANDIDATES` stands for exactly this regex source (regenerated from /repo) -/
theorem re_candidates_source_known :
    Gen.reCandidatesPattern =
      "(^(pas+wo?r?d|pass(phrase)?|pwd|token|secrete?)$|_(pas+wo?r?d|pass(phrase)?|pwd|token|secrete?)_|^(pas+wo?r?d|pass(phrase)?|pwd|token|secrete?)_|_(pas+wo?r?d|pass(phrase)?|pwd|token|secrete?)$)".toList
    ∧ Gen.reCandidatesIgnoreCase = true := by
  decide +kernel

/-- documented words are candidates in all four anchor forms and any letter case; near misses are not -/
theorem candidate_examples :
    (["password", "PASSWORD", "passwd", "pasword", "passsword", "pass", "passphrase", "pwd", "token", "secret", "secrete",
      "db_password", "password_hash", "my_token_x", "API_TOKEN", "Secret_Key", "x_pwd"].all
        (fun s => isCandidate s.toList)) = true ∧
    (["passwords", "mypassword", "tokens", "secretary", "passw", "pw", "key", "pass word", "xpwd", "tokenize", "pa_ssword",
      "passwordx", "_passwor"].any (fun s => isCandidate s.toList)) = false := by
  decide +kernel

/-- **The matcher is the pattern.**  For every string: the model's `RE_CANDIDATES.search` succeeds iff the
case-folded string splits as `pre ++ w ++ post` with `w` in the language of
`pas+wo?r?d|pass(phrase)?|pwd|token|secrete?` (`Spec.PwWord`), `pre` empty or ending in `_`, and `post` empty,
a lone final newline, or starting with `_` — the four alternatives `^W$ | _W_ | ^W_ | _W$`.
(Declarative side: `Bandit/Spec/Names.lean`; helper lemmas: `Bandit/Proofs/Names2.lean`.) -/
theorem candidate_is_pattern (s : Str) : isCandidate s = true ↔ Spec.CandidateSpec (s.map foldCase) :=
  isCandidate_iff_spec s

/-- the tokeniser behind it: the remainders the matcher considers after a word are exactly the
decompositions `s = w ++ r` with `w` a word of the language -/
theorem word_rests_are_language (s r : Str) : r ∈ wordRests s ↔ ∃ w, Spec.PwWord w ∧ s = w ++ r :=
  mem_wordRests

/-- … and the positions it tries are all suffixes -/
theorem suffixes_are_suffixes (s t : Str) : t ∈ suffixes s ↔ ∃ pre, s = pre ++ t :=
  mem_suffixes

/-- **Words are found.**  A string whose case-folded form is a word of the language — alone, or
delimited by `_` (or the string boundary) on either side — is a candidate. -/
theorem candidate_of_word (s pre w post : Str) (hs : s.map foldCase = pre ++ w ++ post) (hw : Spec.PwWord w)
    (hpre : pre = [] ∨ ∃ p, pre = p ++ ['_']) (hpost : post = [] ∨ ∃ q, post = '_' :: q) :
    isCandidate s = true := by
  rw [candidate_is_pattern, hs]
  refine ⟨pre, w, post, rfl, hw, ?_, ?_⟩
  · rcases hpre with h | ⟨p, rfl⟩
    · exact Or.inl h
    · exact Or.inr (by simp)
  · rcases hpost with h | ⟨q, rfl⟩
    · exact Or.inl h
    · exact Or.inr (Or.inr rfl)

/-- … in particular each documented spelling, in any letter case -/
theorem documented_words_are_candidates (s pre post : Str) (w : String)
    (hw : w ∈ ["password", "passwd", "pasword", "pass", "passphrase", "pwd", "token", "secret", "secrete"])
    (hs : s.map foldCase = pre ++ w.toList ++ post)
    (hpre : pre = [] ∨ ∃ p, pre = p ++ ['_']) (hpost : post = [] ∨ ∃ q, post = '_' :: q) :
    isCandidate s = true :=
  candidate_of_word s pre w.toList post hs (documented_words_in_language w hw) hpre hpost

/-- **No stem, no candidate.**  A string whose case-folded form contains none of the letter sequences
`pas`, `pwd`, `token`, `secret` is not a candidate. -/
theorem not_candidate_without_stem (s : Str)
    (h : ∀ x ∈ ["pas", "pwd", "token", "secret"], ¬ x.toList <:+: s.map foldCase) :
    isCandidate s = false := by
  cases hc : isCandidate s with
  | false => rfl
  | true =>
    exfalso
    rcases CandidateSpec_has_stem ((candidate_is_pattern s).mp hc) with h' | h' | h' | h'
    · exact h "pas" (by simp) h'
    · exact h "pwd" (by simp) h'
    · exact h "token" (by simp) h'
    · exact h "secret" (by simp) h'

/-! ## B104, B108, docstrings -/

/-- **B104**: exactly the literal `0.0.0.0` -/
theorem b104_iff (e : Env) :
    b104 e = .ok (if e.node.strConst? == some "0.0.0.0".toList then some { sev := .medium, conf := .medium } else none) := by
  unfold b104
  cases (e.node.strConst? == some "0.0.0.0".toList) <;> rfl

/-- **B108**: a string literal starting with one of the configured directories (the default list
when the setting is absent) -/
theorem b108_iff (cfg : CfgVal) (e : Env) (s : Str) (hs : e.node.strConst? = some s) :
    b108 cfg e = .ok (if ((match cfg.get? "tmp_dirs" with | some v => v.strs | none => defaultTmpDirs).any (fun d => Str.startsWith s d))
      then some { sev := .medium, conf := .medium } else none) := by
  unfold b108
  simp only [hs]
  cases ((match cfg.get? "tmp_dirs" with | some v => v.strs | none => defaultTmpDirs).any (fun d => Str.startsWith s d)) <;> rfl

/-- **Docstrings are exempt**: a string constant whose parent is an expression statement is never
offered to any check -/
theorem docstring_exempt (v : Visit) (p : Node) (rest : List Node)
    (hk : v.node.kind = "Constant".toList) (hstr : v.node.isStrConst = true)
    (hanc : v.anc = p :: rest) (hp : p.isKind "Expr" = true) :
    dispatch v = none := by
  have h1 := not_isKind_of_kind (k := "Constant") (k' := "ClassDef") hk (by decide)
  have h2 := isKind_of_kind hk
  simp [dispatch, h1, h2, hstr, Visit.parent?, hanc, hp]

/-- a string constant anywhere else is offered to the `Str` checks with its parent's line range -/
theorem string_dispatched (v : Visit) (p : Node) (rest : List Node)
    (hk : v.node.kind = "Constant".toList) (hstr : v.node.isStrConst = true)
    (hanc : v.anc = p :: rest) (hp : p.isKind "Expr" = false) :
    dispatch v = some ("Str".toList, ⟨v.node.line?, v.node.col?, linerange p none⟩) := by
  have h1 := not_isKind_of_kind (k := "Constant") (k' := "ClassDef") hk (by decide)
  have h2 := isKind_of_kind hk
  simp [dispatch, h1, h2, hstr, Visit.parent?, hanc, hp]

/-! ## B105 / B106 / B107: non-matching names are silent, matching names with a literal fire -/

/-- **B105, assignment position**: reported iff some target is a name or attribute matching the pattern -/
theorem b105_assign (e : Env) (s : Str) (par : Node) (rest : List Node)
    (hs : e.node.strConst? = some s) (hanc : e.v.anc = par :: rest) (hpar : par.isKind "Assign" = true) :
    b105 e = .ok (if (par.kidList "targets").any (fun t =>
        (match t.nameId? with | some i => isCandidate i | none => false) ||
        (match t.attrName? with | some a => isCandidate a | none => false))
      then some pwRaw else none) := by
  unfold b105
  simp only [hs, Visit.parent?, hanc, List.head?_cons, hpar, if_true, bind, Except.bind, pure, Except.pure]
  cases ((par.kidList "targets").any (fun t =>
        (match t.nameId? with | some i => isCandidate i | none => false) ||
        (match t.attrName? with | some a => isCandidate a | none => false))) <;> rfl

theorem go_fires (kw : Node) (post : List Node) (a : Str)
    (hval : ((CallView.kwValue kw).map Node.isStrConst).getD false = true)
    (hname : CallView.kwName kw = some a) (hcand : isCandidate a = true) :
    ∀ pre : List Node, (∀ k ∈ pre, ((CallView.kwValue k).map Node.isStrConst).getD false = false) →
      b106.go (pre ++ kw :: post) = .ok (some pwRaw)
  | [], _ => by simp [b106.go, hval, hname, hcand, pure, Except.pure]
  | k :: ks, hpre => by
    have hk0 := hpre k (by simp)
    simp only [List.cons_append, b106.go, hk0, Bool.false_eq_true, if_false]
    exact go_fires kw post a hval hname hcand ks (fun k' hk' => hpre k' (by simp [hk']))

theorem go_silent : ∀ l : List Node,
    (∀ k ∈ l, ((CallView.kwValue k).map Node.isStrConst).getD false = true →
          ∃ a, CallView.kwName k = some a ∧ isCandidate a = false) →
    b106.go l = .ok none
  | [], _ => rfl
  | k :: ks, h => by
    by_cases hv : ((CallView.kwValue k).map Node.isStrConst).getD false = true
    · obtain ⟨a, ha, hca⟩ := h k (by simp) hv
      simp only [b106.go, hv, if_true, ha, hca, Bool.false_eq_true, if_false]
      exact go_silent ks (fun k' hk' => h k' (by simp [hk']))
    · simp only [b106.go, hv, Bool.false_eq_true, if_false]
      exact go_silent ks (fun k' hk' => h k' (by simp [hk']))

/-- **B106**: a keyword argument whose value is a string literal and whose name matches (the first
such keyword decides) -/
theorem b106_fires (e : Env) (c : CallView) (pre post : List Node) (kw : Node) (a : Str)
    (hc : e.call? = some c) (hk : c.keywords = pre ++ kw :: post)
    (hpre : ∀ k ∈ pre, ((CallView.kwValue k).map Node.isStrConst).getD false = false)
    (hval : ((CallView.kwValue kw).map Node.isStrConst).getD false = true)
    (hname : CallView.kwName kw = some a) (hcand : isCandidate a = true) :
    b106 e = .ok (some pwRaw) := by
  unfold b106
  simp only [hc, hk]
  exact go_fires kw post a hval hname hcand pre hpre

/-- **B106 silent**: every string-literal keyword has a non-matching name -/
theorem b106_silent (e : Env) (c : CallView) (hc : e.call? = some c)
    (h : ∀ k ∈ c.keywords, ((CallView.kwValue k).map Node.isStrConst).getD false = true →
          ∃ a, CallView.kwName k = some a ∧ isCandidate a = false) :
    b106 e = .ok none := by
  unfold b106
  simp only [hc]
  exact go_silent c.keywords h

/-- **B106 looks at the keywords only**: two calls with the same keyword arguments are judged alike, whatever is called (a name, an attribute, the result of a
call, a subscript, a lambda) and whatever the positional arguments are (seeded change C16-m15 skipped every call whose callee is not a dotted name) -/
theorem b106_ignores_callee (e e' : Env) (c c' : CallView) (hc : e.call? = some c) (hc' : e'.call? = some c') (hk : c'.keywords = c.keywords) :
    b106 e' = b106 e := by
  unfold b106
  simp only [hc, hc', hk]

/-! ## B107: parameters are paired with their defaults from the right, positional-only parameters included -/

/-- what decides B107 on one (parameter, default) pair: the default is a string literal and the parameter's name matches -/
def B107Hit (p : Node × Option Node) : Bool :=
  match p.2 with
  | some v => v.isStrConst && isCandidate ((p.1.strAttr "arg").getD [])
  | none => false

theorem isStrConst_of_none (v : Node) (h : (v.constValue? == some Atom.none) = true) : v.isStrConst = false := by
  have h' : v.constValue? = some Atom.none := by simpa using h
  simp [Node.isStrConst, h']

/-- the scan over the pairs reports iff SOME pair has a string-literal default under a matching name (a `None` default, any other default and a missing
default are all passed over) -/
theorem b107_go_any : ∀ l : List (Node × Option Node), b107.go l = .ok (if l.any B107Hit then some pwRaw else none)
  | [] => rfl
  | (key, none) :: rest => by
    simp only [b107.go, List.any_cons, B107Hit, Bool.false_or]
    exact b107_go_any rest
  | (key, some v) :: rest => by
    simp only [b107.go, List.any_cons, B107Hit]
    by_cases hn : (v.constValue? == some Atom.none) = true
    · simp only [hn, if_true, isStrConst_of_none v hn, Bool.false_and, Bool.false_or]
      exact b107_go_any rest
    · by_cases hh : (v.isStrConst && isCandidate ((key.strAttr "arg").getD [])) = true
      · simp [hn, hh, pure, Except.pure]
      · simp only [hn, Bool.false_eq_true, if_false, hh, Bool.false_or]
        exact b107_go_any rest

/-- **pairing**: with `k` parameters more than defaults, the first `k` parameters (positional-only ones first) have no default and the remaining ones take
the defaults in order — CPython guarantees `len(defaults) ≤ len(posonlyargs) + len(args)` -/
theorem zip_replicate_none_append (k : Nat) : ∀ (ps : List Node) (ds : List (Option Node)),
    ps.zip (List.replicate k none ++ ds) = (ps.take k).map (fun p => (p, none)) ++ (ps.drop k).zip ds := by
  induction k with
  | zero => intro ps ds; simp
  | succ k ih =>
    intro ps ds
    cases ps with
    | nil => simp
    | cons p ps => simp [List.replicate_succ, ih ps ds]

theorem b107_pairing (params defaults : List Node) :
    params.zip (List.replicate (params.length - defaults.length) none ++ defaults.map some) =
      (params.take (params.length - defaults.length)).map (fun p => (p, none)) ++
      (params.drop (params.length - defaults.length)).zip (defaults.map some) :=
  zip_replicate_none_append _ params _

/-- **B107**: reported iff some parameter — positional-only or not — has a string-literal default and a matching name, parameters and defaults being
paired from the right (`b107_pairing`).  (The pinned commit paired `args.args` only: `def f(a='secret', /, password=None)` was reported for the wrong
parameter; repaired by /repo 2542a3e.  The seeded change C16-m13 mis-paired them again by appending keyword-only defaults.) -/
theorem b107_spec (e : Env) (args : Node) (ha : e.node.kid? "args" = some args) :
    b107 e = .ok (if ((args.kidList "posonlyargs" ++ args.kidList "args").zip
        (List.replicate ((args.kidList "posonlyargs" ++ args.kidList "args").length - (args.kidList "defaults").length) none ++ (args.kidList "defaults").map some)).any B107Hit
      then some pwRaw else none) := by
  unfold b107
  simp only [ha, bind, Except.bind, pure, Except.pure]
  exact b107_go_any _

/-- a keyword-only parameter never takes part: B107 looks at positional parameters only (what the documentation of the check says) -/
theorem b107_ignores_kwonly (e : Env) (args args' : Node) (ha : e.node.kid? "args" = some args)
    (e' : Env) (ha' : e'.node.kid? "args" = some args')
    (h1 : args'.kidList "posonlyargs" = args.kidList "posonlyargs") (h2 : args'.kidList "args" = args.kidList "args")
    (h3 : args'.kidList "defaults" = args.kidList "defaults") : b107 e' = b107 e := by
  rw [b107_spec e args ha, b107_spec e' args' ha', h1, h2, h3]

/-! ## instances over the generated defaults -/

/-- the generated default temp-directory list contains the published one -/
theorem gen_tmp_dirs_cover_published :
    ∀ d ∈ ["/tmp", "/var/tmp", "/dev/shm"],
      (((PluginCfg.get Gen.pluginDefaults "hardcoded_tmp_directory").get? "tmp_dirs").map CfgVal.strs).getD [] |>.contains d.toList := by
  decide +kernel

end Props.C16
