import Bandit.Proofs.C17Tables
import Bandit.Gen.Regexes
import Bandit.Gen.Defaults
import Bandit.Proofs.Imports
/-!
# C17 — Injection, templating, deserialization and misc checks follow their rules

One decision-table theorem per check (model of the code = table written from the property text /
plugin documentation, `Bandit/Spec/Inject.lean`), the safe variant of each check, `NEG_` witnesses
where the unchanged code departs from the property, and non-vacuity examples on concrete trees.
Helper lemmas live in `Bandit/Proofs/C17*.lean`.
-/
namespace Props.C17
open Bandit Bandit.Plugins Bandit.Ex

/-! ## The SQL pattern -/

/-- the hand-written matcher stands for *this* source: if /repo changes the regex the obligation
breaks and the run searches for a string on which the implementation and the model differ -/
theorem sql_regex_source_known :
    Gen.simpleSqlPattern = "(select\\s.*from\\s|delete\\s+from\\s|insert\\s+into\\s.*values\\s|update\\s.*set\\s)".toList ∧
    Gen.simpleSqlIgnoreCase = true ∧ Gen.simpleSqlDotAll = true := by
  decide +kernel

/-- **The matcher is the pattern.**  For every string: the model's `SIMPLE_SQL_RE.search` succeeds iff
some suffix of the case-folded string starts with `select␣…from␣`, `delete␣⁺from␣`,
`insert␣⁺into␣…values␣` or `update␣…set␣` (␣ = a `\s` character, … = anything, newlines included). -/
theorem sql_matcher_is_pattern (T : InjTables) (hf : T.isSpace 'f' = false) (hi : T.isSpace 'i' = false) (s : Str) :
    sqlSearch T s = true ↔ Spec.SqlLike T.isSpace (s.map (foldSql T.caseExtra)) :=
  sqlSearch_iff_sqlLike T hf hi s

/-- … and the generated character classes satisfy its side conditions -/
theorem gen_sql_matcher_is_pattern (s : Str) :
    sqlSearch Gen.injTables s = true ↔ Spec.SqlLike Gen.injTables.isSpace (s.map (foldSql Gen.injTables.caseExtra)) :=
  sqlSearch_iff_sqlLike Gen.injTables (by decide +kernel) (by decide +kernel) s

/-- the four verbs, upper/lower/mixed case, Unicode spaces and the `ſ`/`İ` case folds; near misses -/
example : sqlSearch Gen.injTables "SELECT * FROM t WHERE id = ".toList = true ∧
    sqlSearch Gen.injTables "Select a,\n b From\tt ".toList = true ∧
    sqlSearch Gen.injTables "delete   from t ".toList = true ∧
    sqlSearch Gen.injTables "INSERT INTO t (a) VALUES (".toList = true ∧
    sqlSearch Gen.injTables "update t set a".toList = true ∧
    sqlSearch Gen.injTables "ſelect a from t ".toList = true ∧
    sqlSearch Gen.injTables "İnsert ınto t values ".toList = true ∧
    sqlSearch Gen.injTables "SELECT * FROM".toList = false ∧
    sqlSearch Gen.injTables "selection from the menu ".toList = false ∧
    sqlSearch Gen.injTables "deleted from t ".toList = false ∧
    sqlSearch Gen.injTables "from t select ".toList = false ∧
    sqlSearch Gen.injTables "update​t set ".toList = false ∧
    sqlSearch Gen.injTables [] = false := by
  decide +kernel

/-- the names the property speaks about are in the tables regenerated from /repo (supersets are fine) -/
theorem gen_tables_cover :
    "execute".toList ∈ Gen.sqlExecNames ∧ "executemany".toList ∈ Gen.sqlExecNames ∧
    "format".toList ∈ Gen.sqlStrMethods ∧ "replace".toList ∈ Gen.sqlStrMethods ∧
    "mark_safe".toList ∈ Gen.djangoAffected ∧
    "markupsafe.Markup".toList ∈ Gen.markupNames ∧ "flask.Markup".toList ∈ Gen.markupNames ∧
    Gen.extraListKeys = ["where".toList, "tables".toList] := by
  decide +kernel

/-! ## B608 -/

/-- **Confidence rule.**  Whatever the construction: the string is reported iff the joined literal
text is SQL-looking, always MEDIUM severity; MEDIUM confidence iff the expression sits directly in
an `execute`/`executemany` call and is not a `str.replace`, else LOW. -/
theorem b608_rule (T : InjTables) (e : Env) (w : Option Node) (stmt : Str) (repl : Bool)
    (h : evaluateAst T e = .ok (w, stmt, repl)) :
    b608 T e = .ok ((Spec.b608 (sqlSearch T stmt) (insideExecute T w) repl).map mk) := by
  unfold b608 Spec.b608 mk
  simp only [h, bind, Except.bind]
  by_cases hs : sqlSearch T stmt = true <;> simp [hs, pure, Except.pure]

/-- **`%` / `+` with one operation** (`"…" % x`, `"…" + x`, `x + "…"`): the statement is the literal
itself and the wrapper is what encloses the operation. -/
theorem b608_single_operation (T : InjTables) (e : Env) (s : Str) (par w : Node) (rest : List Node)
    (hs : e.node.strConst? = some s) (hanc : e.v.anc = par :: w :: rest)
    (hp : par.isKind "BinOp" = true) (hw : w.isKind "BinOp" = false) :
    evaluateAst T e = .ok (some w, s, false) := by
  unfold evaluateAst
  simp [hs, Visit.parent?, hanc, hp, hw, List.takeWhile, List.dropWhile, getBits_self, Str.joinWith,
    bind, Except.bind, pure, Except.pure]

/-- **`.format` / `.replace`**: the statement is the literal, the wrapper is what encloses the
method call, and `replace` is remembered. -/
theorem b608_method (T : InjTables) (e : Env) (s m : Str) (par c w : Node) (rest : List Node)
    (hs : e.node.strConst? = some s) (hanc : e.v.anc = par :: c :: w :: rest)
    (hp : par.isKind "Attribute" = true) (hm : par.strAttr "attr" = some m) (hmem : T.strMethods.contains m = true) :
    evaluateAst T e = .ok (some w, s, m == "replace".toList) := by
  have hb : par.isKind "BinOp" = false := isKind_excl hp (by decide)
  have hmem' : m ∈ T.strMethods := by simpa using hmem
  unfold evaluateAst
  simp [hs, Visit.parent?, hanc, hp, hb, hm, hmem', bind, Except.bind, pure, Except.pure]

/-- **f-string**: judged once, at its first literal part, on the concatenation of all literal parts. -/
theorem b608_fstring (T : InjTables) (e : Env) (s : Str) (par w first : Node) (more rest : List Node)
    (hs : e.node.strConst? = some s) (hanc : e.v.anc = par :: w :: rest)
    (hp : par.isKind "JoinedStr" = true)
    (hparts : (par.kidList "values").filter Node.isStrConst = first :: more)
    (hfirst : sameNode first e.node = true) (hfs : first.strConst? = some s) :
    evaluateAst T e = .ok (some w, ((first :: more).filterMap Node.strConst?).flatten, false) := by
  have hb : par.isKind "BinOp" = false := isKind_excl hp (by decide)
  have ha : par.isKind "Attribute" = false := isKind_excl hp (by decide)
  unfold evaluateAst
  simp [hs, Visit.parent?, hanc, hp, hb, ha, hparts, hfirst, hfs, bind, Except.bind, pure, Except.pure]

/-- **Safe variant**: a string that is not an operand of `+`/`%`…, not the receiver of
`.format`/`.replace` and not part of an f-string is never reported, whatever it says. -/
theorem b608_plain_literal_silent (T : InjTables) (e : Env) (s : Str) (par : Node)
    (hs : e.node.strConst? = some s) (hpar : e.v.parent? = some par)
    (hb : par.isKind "BinOp" = false) (hj : par.isKind "JoinedStr" = false)
    (ha : (par.isKind "Attribute" && T.strMethods.contains ((par.strAttr "attr").getD [])) = false) :
    b608 T e = .ok none := by
  have : evaluateAst T e = .ok (none, [], false) := by
    have ha' : par.isKind "Attribute" = true → ¬ (par.strAttr "attr").getD [] ∈ T.strMethods := by simpa using ha
    unfold evaluateAst
    simp only [hs, hpar, hb, hj, bind, Except.bind, pure, Except.pure]
    by_cases h1 : par.isKind "Attribute" = true
    · have h2 := ha' h1
      simp [h1, h2]
    · simp [h1]
  rw [b608_rule T e none [] false this]
  simp [Spec.b608, sqlSearch_nil]

/-- the wrapper test, on `cur.execute(<expr>)`, `execute(<expr>)` and `cur.run(<expr>)` -/
example : insideExecute Gen.injTables (some (call (attr (name "cur" 1) "execute" 1) [name "q" 1] [] 1)) = true ∧
    insideExecute Gen.injTables (some (call (name "executemany" 1) [name "q" 1] [] 1)) = true ∧
    insideExecute Gen.injTables (some (call (attr (name "cur" 1) "run" 1) [name "q" 1] [] 1)) = false ∧
    insideExecute Gen.injTables (some (assign (target "q" 1) (name "x" 1) 1)) = false ∧
    insideExecute Gen.injTables none = false := by
  decide +kernel

/-! ## B610 / B611 -/

/-- **B610 table.**  `extra(...)` — positional or keyword — is reported MEDIUM/MEDIUM iff `where` or
`tables` is present and not a list of string literals, or `select` is present and not a dict of
string literals; every other call is silent. -/
theorem b610_table (T : InjTables) (hk : T.extraListKeys = ["where".toList, "tables".toList])
    (e : Env) (c : CallView) (hc : e.call? = some c) :
    b610 T e = .ok (if e.name == "extra".toList then
      (Spec.b610 (Spec.argShape (extraArg c "select".toList)) (Spec.argShape (extraArg c "where".toList))
        (Spec.argShape (extraArg c "tables".toList))).map mk else none) := by
  unfold b610
  simp only [hc, hk, bind, Except.bind, pure, Except.pure]
  by_cases hn : (e.name == "extra".toList) = true
  · simp only [hn, if_true, List.any_cons, List.any_nil, Bool.or_false, listArg_bad, dictArg_bad]
    unfold Spec.b610 mk
    split <;> rename_i h <;> simp [h]
  · simp only [hn]; rfl

/-- **B611 table.**  With `django.db.models` imported (any spelling that mentions it), `RawSQL` whose
SQL argument is present and not a string literal is MEDIUM/MEDIUM; a literal — or no SQL argument at
all — is silent; other calls are silent.  The check never raises. -/
theorem b611_table (e : Env) (c : CallView) (hc : e.call? = some c) :
    b611 e = .ok (if importedLike e.st "django.db.models" && e.name == "RawSQL".toList then
      (match rawSqlArg c with
       | some sql => (Spec.b611 sql.isStrConst).map mk
       | none => none) else none) := by
  unfold b611 rawSqlArg Spec.b611 mk
  simp only [hc, bind, Except.bind, pure, Except.pure]
  generalize importedLike e.st "django.db.models" = I
  generalize (e.name == "RawSQL".toList) = N
  cases I <;> cases N <;> try rfl
  cases c.args with
  | nil =>
    simp only
    cases kwNode c "sql".toList with
    | none => rfl
    | some q => cases hq : q.isStrConst <;> simp [hq]
  | cons a rest =>
    simp only
    cases hq : a.isStrConst <;> simp [hq]

/-- `RawSQL()` no longer raises (repaired: `kwargs.get("sql")`) -/
example : b611 (env (call (name "RawSQL" 2) [] [] 2) [] ["django.db.models.expressions.RawSQL"]
      [("RawSQL", "django.db.models.expressions.RawSQL")]) = .ok none := by
  decide +kernel

/-! ## B701 / B702 -/

/-- **B701 table.**  `jinja2 … Environment(...)`: no `autoescape` keyword or `autoescape=False` is
HIGH/HIGH, `autoescape=True` or `select_autoescape(...)` is silent, anything else HIGH/MEDIUM. -/
theorem b701_table (e : Env) :
    b701 e = .ok (if isJinjaEnvironment e.qual then (Spec.b701 (autoescapeOf e.node)).map mk else none) := by
  unfold b701 Spec.b701 mk
  by_cases h : isJinjaEnvironment e.qual = true
  · simp only [h, if_true]
    cases autoescapeOf e.node <;> rfl
  · simp only [h]; rfl

/-- **Which keyword decides.**  The call's own `autoescape=` keyword (the first one among its direct
children) decides, whatever is nested deeper in the arguments. -/
theorem autoescape_direct_keyword (n k : Node) (hn : isAutoescapeKw n = false)
    (hk : n.children.find? isAutoescapeKw = some k) :
    autoescapeOf n = classifyAutoescape k := by
  obtain ⟨deeper, hw⟩ := walk_eq n
  unfold autoescapeOf
  rw [hw]
  simp [List.find?_cons, hn, List.find?_append, hk]

/-- the model of `ast.walk` never stops early: any larger level budget yields the same traversal -/
theorem walk_complete (n : Node) (k : Nat) : bfsLevels (n.height + k) [n] = n.walk :=
  walk_fuel_enough n k

/-- the keyword values of the property text, on `Environment(loader=l, autoescape=<v>)` -/
example :
    let envCall (v : Option Node) := call (attr (name "jinja2" 1) "Environment" 1) []
      (kw "loader" (name "l" 1) 1 :: (v.map fun x => kw "autoescape" x 1).toList) 1
    autoescapeOf (envCall none) = .absent ∧
    autoescapeOf (envCall (some (const (.bool false) 1))) = .off ∧
    autoescapeOf (envCall (some (const (.bool true) 1))) = .on ∧
    autoescapeOf (envCall (some (call (name "select_autoescape" 1) [] [] 1))) = .selected ∧
    autoescapeOf (envCall (some (call (attr (name "jinja2" 1) "select_autoescape" 1) [] [] 1))) = .selected ∧
    autoescapeOf (envCall (some (name "flag" 1))) = .other ∧
    autoescapeOf (envCall (some (call (name "compute" 1) [] [] 1))) = .other := by
  decide +kernel

/-- `ast.walk` is breadth-first: a nested `autoescape=True` does not hide the call's own `autoescape=False` -/
example : autoescapeOf (call (name "Environment" 1) []
    [kw "loader" (call (name "mk" 1) [] [kw "autoescape" (const (.bool true) 1) 1] 1) 1,
     kw "autoescape" (const (.bool false) 1) 1] 1) = .off := by
  decide +kernel

/-- **B702 table.**  A call whose dotted name contains `mako` and ends in `Template` is MEDIUM/HIGH. -/
theorem b702_table (e : Env) :
    b702 e = .ok (if (Str.splitOn '.' e.qual).contains "mako".toList && Str.lastDot e.qual == "Template".toList
      then some (mk (.medium, .high)) else none) := by
  unfold b702 mk
  by_cases h : ((Str.splitOn '.' e.qual).contains "mako".toList && Str.lastDot e.qual == "Template".toList) = true
  · simp only [h, if_true]; rfl
  · simp only [h]; rfl

/-! ## B506 / B614 / B202 -/

/-- **B506 table** (some import mentions `yaml`).  A call that
resolves to `yaml….load` is MEDIUM/HIGH unless the `Loader=` keyword or the second positional
argument is `SafeLoader` / `CSafeLoader` (however qualified); everything else is silent. -/
theorem b506_table (e : Env) (c : CallView) (kws : List (Option Str × PyVal)) (p : PyVal)
    (hc : e.call? = some c) (hk : c.callKeywords = .ok kws) (hp : c.argAt 1 = .ok p)
    (himp : importedLike e.st "yaml" = true) :
    b506 e = .ok ((Spec.b506 (isYamlLoad e.qual) (CallView.lookupKw kws "Loader") p).map mkNode) := by
  obtain ⟨r1, h1, e1⟩ := checkArg_str c kws hk "Loader" "SafeLoader".toList
  obtain ⟨r2, h2, e2⟩ := checkArg_str c kws hk "Loader" "CSafeLoader".toList
  unfold b506 Spec.b506 Spec.safeLoader Spec.lit mkNode
  simp only [hc, himp, h1, h2, hp, bind, Except.bind, pure, Except.pure, e1, e2]
  cases hl : CallView.lookupKw kws "Loader" <;>
    by_cases hy : isYamlLoad e.qual = true <;>
    by_cases hs : p.beq (.str "SafeLoader".toList) = true <;>
    by_cases hcs : p.beq (.str "CSafeLoader".toList) = true <;>
    simp [hy, hs, hcs] <;> (try split) <;> simp_all

/-- **Safe variant**: `Loader=yaml.SafeLoader` (keyword) — silent, whatever else is passed. -/
theorem b506_safe_loader_silent (e : Env) (c : CallView) (kws : List (Option Str × PyVal)) (p : PyVal)
    (hc : e.call? = some c) (hk : c.callKeywords = .ok kws) (hp : c.argAt 1 = .ok p)
    (hl : CallView.lookupKw kws "Loader" = some (.str "SafeLoader".toList)) :
    b506 e = .ok none := by
  by_cases himp : importedLike e.st "yaml" = true
  · rw [b506_table e c kws p hc hk hp himp, hl]
    simp [Spec.b506, Spec.safeLoader, Spec.lit, PyVal.beq]
  · unfold b506; simp [hc, himp, bind, Except.bind, pure, Except.pure]

/-- `from yaml import load; load(s)` is reported (repaired: `is_module_imported_like`) -/
example :
    b506 (env (call (name "load" 2) [name "s" 2 5] [] 2) [] ["yaml.load"] [("load", "yaml.load")])
      = .ok (some (mkNode (.medium, .high))) := by
  decide +kernel

/-- `import yaml; yaml.load(s)` is reported, `yaml.load(s, Loader=yaml.SafeLoader)`,
`yaml.load(s, yaml.CSafeLoader)` and `yaml.safe_load(s)` are not -/
example :
    let yl (fn : String) (args kws : List Node) := env (call (attr (name "yaml" 2) fn 2) args kws 2) [] ["yaml"] []
    b506 (yl "load" [name "s" 2] []) = .ok (some (mkNode (.medium, .high))) ∧
    b506 (yl "load" [name "s" 2] [kw "Loader" (attr (name "yaml" 2) "SafeLoader" 2) 2]) = .ok none ∧
    b506 (yl "load" [name "s" 2, attr (name "yaml" 2) "CSafeLoader" 2] []) = .ok none ∧
    b506 (yl "load" [name "s" 2] [kw "Loader" (attr (name "yaml" 2) "FullLoader" 2) 2]) = .ok (some (mkNode (.medium, .high))) ∧
    b506 (yl "safe_load" [name "s" 2] []) = .ok none := by
  decide +kernel

/-- **B614 table** (some import mentions `torch`).  `torch….load(...)` is MEDIUM/HIGH unless
`weights_only=True`. -/
theorem b614_table (e : Env) (c : CallView) (kws : List (Option Str × PyVal))
    (hc : e.call? = some c) (hk : c.callKeywords = .ok kws) (himp : importedLike e.st "torch" = true) :
    b614 e = .ok ((Spec.b614 (isTorchLoad e.qual) (CallView.lookupKw kws "weights_only")).map mkLoadKw) := by
  unfold b614 Spec.b614 Spec.lit mkLoadKw CallView.argValue
  simp only [hc, himp, hk, bind, Except.bind, pure, Except.pure]
  by_cases ht : isTorchLoad e.qual = true
  · cases hl : CallView.lookupKw kws "weights_only" with
    | none => simp [ht, PyVal.beq]
    | some v =>
      simp only [ht, Option.getD_some, Option.map_some, Bool.true_and, if_true]
      by_cases hb : v.beq (.str "True".toList) = true
      · simp only [hb, Bool.not_true, Bool.false_eq_true, if_false, if_true, Option.map_none]
      · have hb' : v.beq (.str "True".toList) = false := by simpa using hb
        simp only [hb', Bool.not_true, Bool.not_false, Bool.false_eq_true, if_false, if_true, Option.map_some]
  · simp [ht]

/-- `from torch import load; load(f)` is reported (repaired) -/
example :
    b614 (env (call (name "load" 2) [name "f" 2 5] [] 2) [] ["torch.load"] [("load", "torch.load")])
      = .ok (some (mkLoadKw (.medium, .high))) := by
  decide +kernel

example :
    let tl (kws : List Node) := env (call (attr (name "torch" 2) "load" 2) [name "f" 2] kws 2) [] ["torch"] []
    b614 (tl []) = .ok (some (mkLoadKw (.medium, .high))) ∧
    b614 (tl [kw "weights_only" (const (.bool false) 2) 2]) = .ok (some (mkLoadKw (.medium, .high))) ∧
    b614 (tl [kw "weights_only" (name "flag" 2) 2]) = .ok (some (mkLoadKw (.medium, .high))) ∧
    b614 (tl [kw "weights_only" (const (.bool true) 2) 2]) = .ok none := by
  decide +kernel

/-- **B202 table.**  With `tarfile` imported and a method whose name contains `extractall`:
`filter="data"` is silent; otherwise LOW/LOW when `members=` is a function call, MEDIUM/MEDIUM for any
other `members=`, HIGH/HIGH without `members`.  (`hfn`: classifying `members=` did not raise.) -/
theorem b202_table (e : Env) (c : CallView) (f m fn : Bool)
    (hc : e.call? = some c) (hf : c.hasKw "filter" = .ok f) (hm : c.hasKw "members" = .ok m)
    (hfn : m = true → membersIsFunction c = .ok fn) :
    b202 e = .ok (if importedExact e.st "tarfile" && Str.isInfix "extractall".toList e.name then
      (Spec.b202 (f && isFilterData c) (Spec.members m fn)).map mk else none) := by
  unfold b202 Spec.b202 Spec.members mk
  simp only [hc, hf, hm, bind, Except.bind, pure, Except.pure]
  by_cases hg : (importedExact e.st "tarfile" && Str.isInfix "extractall".toList e.name) = true
  · simp only [hg, if_true]
    cases hfd : (f && isFilterData c) with
    | true => rfl
    | false =>
      cases m with
      | true =>
        have := hfn rfl
        simp only [this]
        cases fn <;> rfl
      | false => rfl
  · simp only [hg]; rfl

/-- `t.extractall(members=tools.safe(t))` is graded LOW (repaired: `getattr(arg.func, "id", arg.func)`) -/
example :
    b202 (env (call (attr (name "t" 2) "extractall" 2) []
      [kw "members" (call (attr (name "tools" 2) "safe" 2) [name "t" 2] [] 2) 2] 2) [] ["tarfile"] [])
      = .ok (some (mk (.low, .low))) := by
  decide +kernel

/-- classifying `members=` never raises -/
theorem membersIsFunction_total (c : CallView) (k : Node)
    (hk : c.keywords.find? (fun k => CallView.kwName k == some "members".toList) = some k) :
    (membersIsFunction c).isOk = true := by
  unfold membersIsFunction
  simp only [hk]
  cases hv : CallView.kwValue k with
  | none => rfl
  | some v =>
    by_cases hcall : v.isKind "Call" = true
    · simp only [hcall, if_true]; rfl
    · simp only [hcall]; rfl

example :
    let xa (kws : List Node) := env (call (attr (name "t" 2) "extractall" 2) [] kws 2) [] ["tarfile"] []
    b202 (xa []) = .ok (some (mk (.high, .high))) ∧
    b202 (xa [kw "members" (name "ms" 2) 2]) = .ok (some (mk (.medium, .medium))) ∧
    b202 (xa [kw "members" (call (name "safe" 2) [name "t" 2] [] 2) 2]) = .ok (some (mk (.low, .low))) ∧
    b202 (xa [kw "filter" (str "data" 2) 2]) = .ok none ∧
    b202 (xa [kw "members" (name "ms" 2) 2, kw "filter" (str "data" 2) 2]) = .ok none ∧
    b202 (xa [kw "filter" (str "tar" 2) 2]) = .ok (some (mk (.high, .high))) := by
  decide +kernel

/-! ## B704 -/

/-- **B704 table (default settings).**  `markupsafe.Markup(x)` / `flask.Markup(x)` — under any import
spelling that resolves to those names — is MEDIUM/HIGH unless `x` is a literal or absent; other calls
are silent. -/
theorem b704_table_default (T : InjTables) (e : Env) (c : CallView) (hc : e.call? = some c) :
    b704 T (.map [("extend_markup_names".toList, .list []), ("allowed_calls".toList, .list [])]) e =
      .ok (if T.markupNames.contains e.qual then
             (match c.args with
              | [] => none
              | a :: _ => if a.isKind "Constant" then none else some (mk (.medium, .high)))
           else none) := by
  unfold b704 mk
  simp only [hc, bind, Except.bind, pure, Except.pure, cfgMember]
  by_cases hq : T.markupNames.contains e.qual = true
  · simp only [hq, Bool.not_true, Bool.false_eq_true, if_false, if_true]
    cases c.args with
    | nil => rfl
    | cons a rest =>
      by_cases hk : a.isKind "Constant" = true
      · simp [hk]
      · simp [hk, CfgVal.get?, CfgVal.truthy]
  · have hq' : ¬ e.qual ∈ T.markupNames := by simpa using hq
    simp [hq', CfgVal.get?]

/-- **B704 configuration.**  `extend_markup_names` adds callees; `allowed_calls` exempts arguments that
are calls of the listed functions. -/
example :
    let T := Gen.injTables
    let cfg : CfgVal := .map [("extend_markup_names".toList, .list [.str "webhelpers.html.literal".toList]),
                               ("allowed_calls".toList, .list [.str "bleach.clean".toList])]
    let lit (a : Node) := env (call (name "literal" 2) [a] [] 2) [] ["webhelpers.html.literal"] [("literal", "webhelpers.html.literal")]
    let mu (a : Node) := env (call (name "Markup" 2) [a] [] 2) [] ["markupsafe.Markup", "bleach"] [("Markup", "markupsafe.Markup")]
    b704 T cfg (lit (name "x" 2)) = .ok (some (mk (.medium, .high))) ∧
    b704 T cfg (lit (str "lit" 2)) = .ok none ∧
    b704 T cfg (mu (call (attr (name "bleach" 2) "clean" 2) [name "x" 2] [] 2)) = .ok none ∧
    b704 T cfg (mu (call (name "other" 2) [name "x" 2] [] 2)) = .ok (some (mk (.medium, .high))) ∧
    b704 T (PluginCfg.get Gen.pluginDefaults "markupsafe_xss") (lit (name "x" 2)) = .ok none ∧
    b704 T (PluginCfg.get Gen.pluginDefaults "markupsafe_xss") (mu (name "x" 2)) = .ok (some (mk (.medium, .high))) := by
  decide +kernel

/-! ## B201 / B612 / B601 / B102 -/

/-- **B201 table.**  With flask imported, `….run(debug=True)` is HIGH/MEDIUM on the line of `debug=`;
anything else is silent. -/
theorem b201_table (e : Env) (c : CallView) (kws : List (Option Str × PyVal))
    (hc : e.call? = some c) (hk : c.callKeywords = .ok kws) :
    b201 e = .ok (if importedLike e.st "flask" && Str.endsWith e.qual ".run".toList &&
        ((CallView.lookupKw kws "debug").map (·.beq (.str "True".toList))).getD false
      then some (mkKw ["debug"] (.high, .medium)) else none) := by
  obtain ⟨r, hr, er⟩ := checkArg_str c kws hk "debug" "True".toList
  unfold b201 mkKw
  simp only [hc, hr, bind, Except.bind, pure, Except.pure]
  have er' : (r == some true) = ((CallView.lookupKw kws "debug").map (·.beq (.str "True".toList))).getD false := by
    have := congrArg (!·) er
    simpa [bne] using this
  generalize ((CallView.lookupKw kws "debug").map (·.beq (.str "True".toList))).getD false = B at er'
  simp only [er']
  generalize importedLike e.st "flask" = I
  generalize Str.endsWith e.qual ".run".toList = R
  cases I <;> cases R <;> cases B <;> rfl

/-- **B612 table.**  `logging.config.listen(...)` (resolved name) without a `verify=` keyword is
MEDIUM/HIGH. -/
theorem b612_table (e : Env) (c : CallView) (v : Bool) (hc : e.call? = some c) (hv : c.hasKw "verify" = .ok v) :
    b612 e = .ok (if e.qual == "logging.config.listen".toList && !v then some (mk (.medium, .high)) else none) := by
  unfold b612 mk
  simp only [hc, hv, bind, Except.bind, pure, Except.pure]
  generalize (e.qual == "logging.config.listen".toList) = Q
  cases Q <;> cases v <;> rfl

/-- **B601 table.** -/
theorem b601_table (e : Env) :
    b601 e = .ok (if importedLike e.st "paramiko" && e.name == "exec_command".toList then some (mk (.medium, .medium)) else none) := by
  unfold b601 mk
  split <;> rfl

/-- **B102 table.**  Exactly the builtin spelling `exec(...)`. -/
theorem b102_table (e : Env) :
    b102 e = .ok (if e.qual == "exec".toList then some (mk (.medium, .high)) else none) := by
  unfold b102 mk
  split <;> rfl

/-! ## B101 / B110 / B112 -/

/-- **B101 table.**  Every `assert` is LOW/HIGH unless the file path — the whole path as given to
bandit — matches one of the `skips` globs. -/
theorem b101_table (kvs : List (Str × CfgVal)) (fileName : Str) (e : Env) :
    b101 (.map kvs) fileName e =
      .ok (if (((CfgVal.map kvs).strList? "skips").getD []).any (fun g => Glob.fnmatch fileName g)
        then none else some (mk (.low, .high))) := by
  unfold b101 mk
  by_cases h : ((((CfgVal.map kvs).strList? "skips").getD []).any fun g => Glob.fnmatch fileName g) = true <;>
    simp [h, pure, Except.pure]

/-- the globs are matched against the path, not the base name: `test_*.py` does not match
`pkg/test_b.py`, `*/test_*.py` and `*test_*.py` do; `*_test.py` matches `pkg/b_test.py` -/
example : Glob.fnmatch "pkg/test_b.py".toList "test_*.py".toList = false ∧
    Glob.fnmatch "pkg/test_b.py".toList "*/test_*.py".toList = true ∧
    Glob.fnmatch "pkg/test_b.py".toList "*test_*.py".toList = true ∧
    Glob.fnmatch "pkg/b_test.py".toList "*_test.py".toList = true ∧
    Glob.fnmatch "pkg/mod.py".toList "*_test.py".toList = false ∧
    Glob.fnmatch "pkg/t1.py".toList "*/t[0-9].py".toList = true ∧
    Glob.fnmatch "pkg/t10.py".toList "*/t[0-9].py".toList = false := by
  decide +kernel

/-- **B110 / B112 table.**  A handler whose whole body is the single statement `pass` (`continue`) is
LOW/HIGH when it is bare or catches `Exception`; a handler for another type only when
`check_typed_exception` is set. -/
theorem handler_table (id bodyKind : String) (cte : CfgVal) (kvs : List (Str × CfgVal)) (e : Env) (s : Node)
    (hcfg : (CfgVal.map kvs).get? "check_typed_exception" = some cte)
    (hbody : e.node.kidList "body" = [s]) :
    exceptHandler id bodyKind (.map kvs) e =
      .ok ((Spec.handler cte.truthy (handlerType e.node) (s.isKind bodyKind)).map
        fun r => { id := id.toList, sev := r.1, conf := r.2 }) := by
  unfold exceptHandler Spec.handler handlerType
  simp only [Env.node] at hbody
  simp only [Env.node, hbody, hcfg, List.length_singleton, bind, Except.bind, pure, Except.pure, List.head?_cons, Option.map_some,
    Option.getD_some]
  obtain ht | ⟨t, ht⟩ := Option.eq_none_or_eq_some (e.v.node.kid? "type")
  · simp only [ht]
    generalize cte.truthy = C
    generalize s.isKind bodyKind = S
    cases C <;> cases S <;> rfl
  · simp only [ht, Option.isSome_some, Option.bind_some, bne]
    generalize cte.truthy = C
    generalize s.isKind bodyKind = S
    generalize (t.nameId? == some "Exception".toList) = E
    cases C <;> cases S <;> cases E <;> rfl

/-- a handler with more than one statement (or none) is never reported -/
theorem handler_longer_body_silent (id bodyKind : String) (cfg : CfgVal) (e : Env)
    (hbody : (e.node.kidList "body").length ≠ 1) :
    exceptHandler id bodyKind cfg e = .ok none := by
  unfold exceptHandler
  simp [hbody, pure, Except.pure]

/-! ## B703 -/
open DjangoXss

/-- **Safe variant: a literal argument is silent** (whatever else the file contains, any fuel). -/
theorem b703_literal_silent (T : InjTables) (fuel : Env → Nat) (e : Env) (c : CallView) (x : Node) (rest : List Node)
    (hc : e.call? = some c) (ha : c.args = x :: rest) (hx : x.isStrConst = true) :
    b703With T fuel e = .ok none := by
  unfold b703With
  simp only [hc, ha, hx, bind, Except.bind, pure, Except.pure]
  generalize importedLike e.st "django.utils.safestring" = I
  generalize T.affected.contains e.name = A
  cases I <;> cases A <;> rfl

/-- nothing is reported unless `django.utils.safestring` was imported and the callee is one of the
affected names -/
theorem b703_other_call_silent (T : InjTables) (fuel : Env → Nat) (e : Env)
    (h : (importedLike e.st "django.utils.safestring" && T.affected.contains e.name) = false) :
    b703With T fuel e = .ok none := by
  unfold b703With
  generalize importedLike e.st "django.utils.safestring" = I at h
  generalize T.affected.contains e.name = A at h
  cases I <;> cases A <;> first | rfl | cases h

/-- the decision for a `Name` argument that is not a parameter is `evaluate_var` on the enclosing scope -/
theorem b703_name (T : InjTables) (fuel : Env → Nat) (e : Env) (c : CallView) (x parent : Node) (rest : List Node)
    (i : Str) (l : Nat)
    (himp : importedLike e.st "django.utils.safestring" = true) (hname : T.affected.contains e.name = true)
    (hc : e.call? = some c) (ha : c.args = x :: rest) (hx : x.nameId? = some i)
    (hp : enclosing e.v.anc = some parent)
    (hnp : (parent.isKind "FunctionDef" && (params parent).contains i) = false)
    (hl : e.node.line? = some l) :
    b703With T fuel e =
      (match evalVar (fuel e) parent i l with
       | .ok true => .ok none
       | .ok false => .ok (some (mk (.medium, .high)))
       | .error (.crash cr) => .error cr
       | .error .diverge => .error .other) := by
  unfold b703With secureArg mk
  simp only [himp, hname, hc, ha, nameId_not_str hx, hx, hp, hnp, hl, bind, Except.bind, pure, Except.pure, if_true]
  rfl

/-- **A parameter of the enclosing function is always reported.** -/
theorem b703_param_reported (T : InjTables) (fuel : Env → Nat) (e : Env) (c : CallView) (x parent : Node)
    (rest : List Node) (i : Str)
    (himp : importedLike e.st "django.utils.safestring" = true) (hname : T.affected.contains e.name = true)
    (hc : e.call? = some c) (ha : c.args = x :: rest) (hx : x.nameId? = some i)
    (hp : enclosing e.v.anc = some parent)
    (hpar : (parent.isKind "FunctionDef" && (params parent).contains i) = true) :
    b703With T fuel e = .ok (some (mk (.medium, .high))) := by
  unfold b703With secureArg mk
  simp only [himp, hname, hc, ha, nameId_not_str hx, hx, hp, hpar, bind, Except.bind, pure, Except.pure, if_true]
  rfl

/-- **A name never assigned before the call is reported**: if every statement of the enclosing scope
that starts before the call leaves the variable alone, the call is MEDIUM/HIGH. -/
theorem b703_unassigned_reported (T : InjTables) (fuel : Env → Nat) (e : Env) (c : CallView) (x parent : Node)
    (rest : List Node) (i : Str) (l : Nat)
    (himp : importedLike e.st "django.utils.safestring" = true) (hname : T.affected.contains e.name = true)
    (hc : e.call? = some c) (ha : c.args = x :: rest) (hx : x.nameId? = some i)
    (hp : enclosing e.v.anc = some parent)
    (hnp : (parent.isKind "FunctionDef" && (params parent).contains i) = false)
    (hl : e.node.line? = some l) (hfuel : 0 < fuel e)
    (hun : ∀ s ∈ parent.kidList "body", Inert i l s) :
    b703With T fuel e = .ok (some (mk (.medium, .high))) := by
  rw [b703_name T fuel e c x parent rest i l himp hname hc ha hx hp hnp hl]
  obtain ⟨n, hn⟩ : ∃ n, fuel e = n + 1 := ⟨fuel e - 1, by omega⟩
  have hev : evalVar (n + 1) parent i l = .ok false := by
    show evalVarStep (evalVar n parent) parent i l = _
    unfold evalVarStep
    simp only [hnp, Bool.false_eq_true, if_false, scanBody_inert _ false hun]
  rw [hn, hev]

/-- **A name assigned a string literal is silent**: the statements before the assignment leave the
variable alone, the assignment binds it to a literal, the statements after it are not looked at or
leave it alone. -/
theorem b703_literal_assignment_silent (T : InjTables) (fuel : Env → Nat) (e : Env) (c : CallView) (x parent : Node)
    (rest : List Node) (i : Str) (l ln : Nat) (pre post : List Node) (s t : Node)
    (himp : importedLike e.st "django.utils.safestring" = true) (hname : T.affected.contains e.name = true)
    (hc : e.call? = some c) (ha : c.args = x :: rest) (hx : x.nameId? = some i)
    (hp : enclosing e.v.anc = some parent)
    (hnp : (parent.isKind "FunctionDef" && (params parent).contains i) = false)
    (hl : e.node.line? = some l) (hfuel : 0 < fuel e)
    (hbody : parent.kidList "body" = pre ++ s :: post)
    (hpre : ∀ y ∈ pre, Skipped i l y) (hpost : ∀ y ∈ post, Inert i l y)
    (hsl : s.line? = some ln) (hlt : ln < l)
    (hs : isAssigned i s = .ok (.one t)) (ht : t.isStrConst = true) :
    b703With T fuel e = .ok none := by
  rw [b703_name T fuel e c x parent rest i l himp hname hc ha hx hp hnp hl]
  obtain ⟨n, hn⟩ : ∃ n, fuel e = n + 1 := ⟨fuel e - 1, by omega⟩
  have hev : evalVar (n + 1) parent i l = .ok true := by
    show evalVarStep (evalVar n parent) parent i l = _
    unfold evalVarStep
    simp only [hnp, Bool.false_eq_true, if_false, hbody, scanBody_skip_prefix pre _ false hpre,
      scanBody_literal hsl hlt hs ht, scanBody_inert post true hpost]
  rw [hn, hev]

/-- **Fuel only decides between an answer and "no answer".**  Once `evaluate_var` has produced a value
or a Python exception within `n` nested activations, every larger budget produces the same. -/
theorem b703_fuel_monotone (parent : Node) (var : Str) (till n k : Nat)
    (h : evalVar n parent var till ≠ .error .diverge) :
    evalVar (n + k) parent var till = evalVar n parent var till :=
  evalVar_add parent n k var till h

/-- **Termination.**  `evaluate_var(x, parent, until)` needs at most `until + 1` nested activations —
for every scope and every variable (repaired: the `until` handed down is the first line of the assignment
statement, which starts before the current `until`). -/
theorem b703_terminates (parent : Node) (var : Str) (till : Nat) :
    evalVar (till + 1) parent var till ≠ .error .diverge :=
  evalVar_terminates parent till (till + 1) var (by omega)

/-- the former counter-example: line 1 `x = (`, line 2 `    x)` — now answered (insecure) -/
example : evalVar 3 (module [assign (target "x" 1) (name "x" 2 4) 1]) "x".toList 2 = .ok false := by
  decide +kernel

/-- the former crash shapes: `mark_safe()` is silent, tuple targets with non-`Name` elements or short
value tuples are skipped (the variable is then unassigned, hence reported) -/
example :
    let imp := ["django.utils.safestring.mark_safe"]
    let al := [("mark_safe", "django.utils.safestring.mark_safe")]
    b703 Gen.injTables (env (call (name "mark_safe" 2) [] [] 2) [] imp al) = .ok none ∧
    (let m := module [assign (tuple [attr (name "o" 1) "a" 1, target "x" 1 5] 1) (tuple [name "p" 1 9, name "q" 1 12] 1 9) 1,
                       exprStmt (call (name "mark_safe" 2) [name "x" 2 10] [] 2) 2]
     b703 Gen.injTables (env (call (name "mark_safe" 2) [name "x" 2 10] [] 2) [m] imp al) = .ok (some (mk (.medium, .high)))) ∧
    (let m := module [assign (tuple [target "x" 1, target "y" 1 3] 1) (tuple [name "p" 1 9] 1 8) 1,
                       exprStmt (call (name "mark_safe" 2) [name "y" 2 10] [] 2) 2]
     b703 Gen.injTables (env (call (name "mark_safe" 2) [name "y" 2 10] [] 2) [m] imp al) = .ok (some (mk (.medium, .high)))) := by
  decide +kernel

/-- the data flow is followed: `mark_safe(x)` on line 4 is secure (x ← y ← literal),
so is `mark_safe(z)` (z ← literal.format(y)), while `mark_safe(w)` is not -/
example :
    let m := module [assign (target "y" 1) (str "lit" 1 4) 1, assign (target "x" 2) (name "y" 2 4) 2,
      assign (target "z" 3) (call (attr (str "{}" 3 4) "format" 3 4) [name "y" 3 16] [] 3 4) 3]
    evalVar 5 m "x".toList 4 = .ok true ∧ evalVar 5 m "z".toList 4 = .ok true ∧ evalVar 5 m "w".toList 4 = .ok false ∧
    evalVar 1 m "x".toList 4 = .error .diverge := by
  decide +kernel

/-! ## The safe variant of each check is silent -/

/-- `weights_only=True` (B614), whatever the import spelling -/
theorem b614_weights_only_silent (e : Env) (c : CallView) (kws : List (Option Str × PyVal))
    (hc : e.call? = some c) (hk : c.callKeywords = .ok kws)
    (hw : CallView.lookupKw kws "weights_only" = some (.str "True".toList)) : b614 e = .ok none := by
  by_cases himp : importedLike e.st "torch" = true
  · rw [b614_table e c kws hc hk himp, hw]
    simp [Spec.b614, Spec.lit, PyVal.beq]
  · unfold b614; simp [hc, himp, bind, Except.bind, pure, Except.pure]

/-- `filter="data"` (B202), with or without `members` -/
theorem b202_filter_data_silent (e : Env) (c : CallView) (hc : e.call? = some c)
    (hf : c.hasKw "filter" = .ok true) (hd : isFilterData c = true) : b202 e = .ok none := by
  unfold b202
  simp only [hc, hf, hd, bind, Except.bind, pure, Except.pure]
  generalize (importedExact e.st "tarfile" && Str.isInfix "extractall".toList e.name) = G
  cases G <;> rfl

/-- `autoescape=True` / `autoescape=select_autoescape(...)` (B701) -/
theorem b701_autoescape_on_silent (e : Env) (h : autoescapeOf e.node = .on ∨ autoescapeOf e.node = .selected) :
    b701 e = .ok none := by
  rw [b701_table]
  rcases h with h | h <;> simp [h, Spec.b701]

/-- a `verify=` keyword (B612) -/
theorem b612_verify_silent (e : Env) (c : CallView) (hc : e.call? = some c) (hv : c.hasKw "verify" = .ok true) :
    b612 e = .ok none := by
  rw [b612_table e c true hc hv]; simp

/-- no `debug=` keyword, or one that is not the literal `True` (B201) -/
theorem b201_debug_off_silent (e : Env) (c : CallView) (kws : List (Option Str × PyVal))
    (hc : e.call? = some c) (hk : c.callKeywords = .ok kws)
    (hd : ((CallView.lookupKw kws "debug").map (·.beq (.str "True".toList))).getD false = false) :
    b201 e = .ok none := by
  rw [b201_table e c kws hc hk, hd]; simp

/-- literal-only `extra(...)` arguments (B610) -/
theorem b610_literals_silent (T : InjTables) (hk : T.extraListKeys = ["where".toList, "tables".toList])
    (e : Env) (c : CallView) (hc : e.call? = some c)
    (hs : Spec.argShape (extraArg c "select".toList) = .absent ∨ Spec.argShape (extraArg c "select".toList) = .literalDict)
    (hw : Spec.argShape (extraArg c "where".toList) = .absent ∨ Spec.argShape (extraArg c "where".toList) = .literalList)
    (ht : Spec.argShape (extraArg c "tables".toList) = .absent ∨ Spec.argShape (extraArg c "tables".toList) = .literalList) :
    b610 T e = .ok none := by
  rw [b610_table T hk e c hc]
  generalize (e.name == "extra".toList) = N
  rcases hs with hs | hs <;> rcases hw with hw | hw <;> rcases ht with ht | ht <;> rw [hs, hw, ht] <;> cases N <;> rfl

/-- a literal SQL argument (B611) -/
theorem b611_literal_silent (e : Env) (c : CallView) (sql : Node) (hc : e.call? = some c)
    (ha : rawSqlArg c = some sql) (hs : sql.isStrConst = true) : b611 e = .ok none := by
  rw [b611_table e c hc, ha]
  simp only [hs]
  generalize (importedLike e.st "django.db.models" && e.name == "RawSQL".toList) = G
  cases G <;> rfl

/-- a literal first argument (B704), under any settings that are a mapping -/
theorem b704_literal_silent (T : InjTables) (kvs : List (Str × CfgVal)) (e : Env) (c : CallView) (a : Node) (rest : List Node)
    (hc : e.call? = some c) (ha : c.args = a :: rest) (hk : a.isKind "Constant" = true)
    (hext : ∃ b, cfgMember ((CfgVal.map kvs).get? "extend_markup_names") e.qual = .ok b) :
    b704 T (.map kvs) e = .ok none := by
  obtain ⟨b, hb⟩ := hext
  unfold b704
  simp only [hc, ha, hk, hb, bind, Except.bind, pure, Except.pure]
  generalize T.markupNames.contains e.qual = Q
  cases Q <;> cases b <;> rfl

/-- a file matching one of the `skips` globs (B101) -/
theorem b101_skipped_silent (kvs : List (Str × CfgVal)) (fileName g : Str) (e : Env)
    (hg : g ∈ ((CfgVal.map kvs).strList? "skips").getD []) (hm : Glob.fnmatch fileName g = true) :
    b101 (.map kvs) fileName e = .ok none := by
  rw [b101_table]
  have : (((CfgVal.map kvs).strList? "skips").getD []).any (fun g => Glob.fnmatch fileName g) = true :=
    List.any_eq_true.mpr ⟨g, hg, hm⟩
  simp [this]

/-- a handler for a specific exception type under the default settings (B110 / B112) -/
theorem handler_typed_silent (id bodyKind : String) (kvs : List (Str × CfgVal)) (e : Env) (s : Node)
    (hcfg : (CfgVal.map kvs).get? "check_typed_exception" = some (.bool false))
    (hbody : e.node.kidList "body" = [s]) (ht : handlerType e.node = .typed) :
    exceptHandler id bodyKind (.map kvs) e = .ok none := by
  rw [handler_table id bodyKind (.bool false) kvs e s hcfg hbody, ht]
  simp [Spec.handler, CfgVal.truthy]

/-! ## End to end: the whole per-file pipeline on concrete modules -/

/-- every unsafe variant of one module is reported with the documented ranks on its line -/
example :
    scan (module [
      import_ "yaml" 1, import_ "torch" 2, import_ "tarfile" 3,
      exprStmt (call (attr (name "yaml" 4) "load" 4) [name "s" 4 10] [] 4) 4,
      exprStmt (call (attr (name "torch" 5) "load" 5) [name "f" 5 11] [] 5) 5,
      exprStmt (call (attr (name "t" 6) "extractall" 6) [] [] 6) 6,
      exprStmt (call (name "exec" 7) [name "code" 7 5] [] 7) 7,
      exprStmt (call (attr (name "cur" 8) "execute" 8) [binop (str "select a from t where x=%s" 8 12) "Mod" (name "v" 8 43) 8 12 32] [] 8) 8,
      exprStmt (call (attr (name "qs" 9) "extra" 9) [] [kw "where" (list [name "w" 9 16] 9 15) 9 9] 9) 9,
      .mk "Try".toList (at_ 10) [] [("body".toList, true, [stmt "Pass" 11]),
        ("handlers".toList, true, [handler (some (name "Exception" 12 7)) [stmt "Pass" 13] 12]),
        ("orelse".toList, true, []), ("finalbody".toList, true, [])],
      .mk "Assert".toList (at_ 14) [] [("test".toList, false, [name "x" 14 7])]
    ]) Gen.pluginDefaults =
      [("B506", .medium, .high, 4), ("B614", .medium, .high, 5), ("B202", .high, .high, 6), ("B102", .medium, .high, 7),
       ("B608", .medium, .medium, 8), ("B610", .medium, .medium, 9), ("B110", .low, .high, 12), ("B101", .low, .high, 14)] := by
  decide +kernel

/-- the three other construction shapes inside `execute(...)`: `.format` MEDIUM/MEDIUM, `.replace`
MEDIUM/LOW (documented), f-string MEDIUM/MEDIUM — and the same `.format` assigned to a variable is LOW -/
example :
    let lit (l : Nat) := str "select a from t where x = " l 12
    let exec (arg : Node) (l : Nat) := exprStmt (call (attr (name "cur" l) "execute" l) [arg] [] l) l
    let fstr (l : Nat) : Node := .mk "JoinedStr".toList (some ⟨l, l, 12, 50⟩) []
      [("values".toList, true, [lit l, .mk "FormattedValue".toList (at_ l 40) [("conversion".toList, .int (-1))]
        [("value".toList, false, [name "v" l 41])]])]
    scan (module [
      exec (call (attr (lit 1) "format" 1 12) [name "v" 1 50] [] 1 12) 1,
      exec (call (attr (lit 2) "replace" 2 12) [str "x" 2 50, name "v" 2 55] [] 2 12) 2,
      exec (fstr 3) 3,
      assign (target "q" 4) (call (attr (lit 4) "format" 4 12) [name "v" 4 50] [] 4 12) 4
    ]) Gen.pluginDefaults =
      [("B608", .medium, .medium, 1), ("B608", .medium, .low, 2), ("B608", .medium, .medium, 3), ("B608", .medium, .low, 4)] := by
  decide +kernel

/-- the documented multi-operand concatenation `"SELECT " + val + " FROM " + tab`: the literals of the
left-nested chain are joined (`SELECT   FROM `) and reported once, at the first literal; the
right-nested `"SELECT * " + ("FROM t WHERE id = " + x)` is *not* joined (observation, left open by the spec) -/
example :
    scan (module [
      assign (target "q" 1) (binop (binop (binop (str "SELECT " 1 4) "Add" (name "val" 1 16) 1 4 15) "Add" (str " FROM " 1 22) 1 4 26)
        "Add" (name "tab" 1 33) 1 4 32) 1,
      assign (target "q" 2) (binop (str "SELECT * " 2 4) "Add" (binop (str "FROM t WHERE id = " 2 19) "Add" (name "x" 2 42) 2 19 24) 2 4 40) 2
    ]) Gen.pluginDefaults = [("B608", .medium, .low, 1)] := by
  decide +kernel

/-- … and the safe variants of the same module are silent, with no internal error -/
example :
    let m := module [
      import_ "yaml" 1, import_ "torch" 2, import_ "tarfile" 3,
      exprStmt (call (attr (name "yaml" 4) "load" 4) [name "s" 4 10] [kw "Loader" (attr (name "yaml" 4 20) "SafeLoader" 4 20) 4 13] 4) 4,
      exprStmt (call (attr (name "torch" 5) "load" 5) [name "f" 5 11] [kw "weights_only" (const (.bool true) 5 27) 5 14] 5) 5,
      exprStmt (call (attr (name "t" 6) "extractall" 6) [] [kw "filter" (str "data" 6 20) 6 13] 6) 6,
      exprStmt (call (attr (name "obj" 7) "exec" 7) [name "code" 7 9] [] 7) 7,
      exprStmt (call (attr (name "cur" 8) "execute" 8) [str "select a from t where x=%s" 8 12, tuple [name "v" 8 43] 8 42] [] 8) 8,
      exprStmt (call (attr (name "qs" 9) "extra" 9) [] [kw "where" (list [str "a = 1" 9 16] 9 15) 9 9] 9) 9,
      .mk "Try".toList (at_ 10) [] [("body".toList, true, [stmt "Pass" 11]),
        ("handlers".toList, true, [handler (some (name "ValueError" 12 7)) [stmt "Pass" 13] 12]),
        ("orelse".toList, true, []), ("finalbody".toList, true, [])]]
    scan m Gen.pluginDefaults = [] ∧ crashes m Gen.pluginDefaults = [] := by
  decide +kernel

/-! ## Import gates are set membership

B201, B601, B611, B506, B614, B202, B703 (and B507) look at the visited imports.  bandit keeps them in a `set`; the model keeps the list
of visits.  The three theorems say that the list is only ever used as a set. -/

/-- **what the visitor adds.**  After visiting any node the imports are the old ones plus the node's own (`importedBy`) -/
theorem visited_imports_accumulate (s : VState) (n : Node) (q : Str) :
    q ∈ (s.update n).imports ↔ q ∈ importedBy n ∨ q ∈ s.imports :=
  update_imports_mem s n q

/-- **order and repetition of imports cannot change a decision.**  For every selected test set (blacklist check included), every node and every
two import lists with the same members, each check returns the same result — finding, silence or internal error alike -/
theorem import_gates_are_set_membership (pc : PluginCfg) (fn : Str) (t : BlTables) (keep : Str → Bool) (e : Env) (x : List Str)
    (h : SameMembers x e.st.imports) :
    ∀ c ∈ testSet pc fn t keep, c.run (e.withImports x) = c.run e :=
  testSet_imp h pc fn t keep

/-- in particular two `import` statements may be swapped, and one may be repeated -/
theorem import_statements_commute (s : VState) (a b : Node) :
    SameMembers ((s.update a).update b).imports ((s.update b).update a).imports ∧
    SameMembers ((s.update a).update a).imports (s.update a).imports := by
  refine ⟨fun q => ?_, fun q => ?_⟩
  · simp only [update_imports_mem]
    constructor <;> (rintro (h | h | h) <;> simp [h])
  · simp only [update_imports_mem]
    constructor
    · rintro (h | h | h) <;> simp [h]
    · rintro (h | h) <;> simp [h]

/-- non-vacuity: the gate matters (an empty import set silences B506 on the same call), and two different lists have the same members -/
example : SameMembers ["yaml".toList, "os".toList, "yaml".toList] ["os".toList, "yaml".toList] := by
  intro s; simp only [List.mem_cons, List.not_mem_nil, or_false]
  constructor
  · rintro (h | h | h)
    · exact .inr h
    · exact .inl h
    · exact .inr h
  · rintro (h | h)
    · exact .inr (.inl h)
    · exact .inl h

end Props.C17
