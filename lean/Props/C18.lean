import Bandit.Proofs.Registry
import Bandit.Gen.RegTables
import Bandit.Proofs.C18.CohCall
import Bandit.Proofs.C18.CohImport
import Bandit.Proofs.C18.CohRegistry
import Bandit.Gen.Chars
import Bandit.Published
import Props.C01
/-!
# C18 — The rule registry is coherent and the published rules stay enforced

`Gen.tables` is regenerated from `/repo`'s working tree on every run (registry through the current
`setup.cfg`, `Issue(...)` sites and `@test_id` decorators from the source AST, `doc/source`), and
`Published.*` from the frozen `published/*.json`; the instance theorems below are therefore
re-checked by the kernel against what the code says *now*.  The generic theorems hold for arbitrary
tables and say what the decidable table facts buy.

Only property theorems live here (helper lemmas: `Bandit/Proofs/Registry.lean`).
-/
namespace Props.C18
open Bandit Bandit.Spec

/-! ### What the table facts imply (arbitrary tables) -/

/-- **Unique IDs and unique names ⇒ name and ID look each other up one-to-one** through
`get_test_id`, `check_id` and the by-ID dictionaries, for any registry. -/
theorem unique_implies_bijection (t : RegTables) (hi : IdsUnique t) (hn : NamesUnique t) :
    Bijection t.registry :=
  Registry.bijection_of_unique (RegTables.entries_ids_nodup t hi) (by rw [RegTables.names_eq]; exact hn)

/-- **Unique names that are not IDs ⇒ a check can be named by ID or by name interchangeably**
wherever bandit resolves a token through `_find_test_id_from_nosec_string` (nosec comments). -/
theorem unique_implies_interchangeable (t : RegTables) (hn : NamesUnique t) (hd : NamesAreNotIds t) :
    Interchangeable t.registry :=
  Registry.interchangeable_of_unique (by rw [RegTables.names_eq]; exact hn) (RegTables.names_not_ids t hd)

/-- **Unique IDs ⇒ resolution is injective on registered names**: no two checks are confused. -/
theorem unique_implies_resolve_injective (t : RegTables) (hi : IdsUnique t) (hn : NamesUnique t)
    (hd : NamesAreNotIds t) {e₁ e₂ : Str × Str} (h₁ : e₁ ∈ t.registry.entries) (h₂ : e₂ ∈ t.registry.entries)
    (h : t.registry.resolve e₁.2 = t.registry.resolve e₂.2) : e₁ = e₂ :=
  Registry.resolve_name_injective (RegTables.entries_ids_nodup t hi) (by rw [RegTables.names_eq]; exact hn) (RegTables.names_not_ids t hd) h₁ h₂ h

/-- **Legacy profiles** (`convert_names_to_ids`): a registered name and its ID denote the same test. -/
theorem unique_implies_profile_interchangeable (t : RegTables) (hw : IdsWellformed t) (hn : NamesUnique t)
    (hid : ∀ e ∈ t.registry.entries, e.1 ∉ t.names) :
    ProfileInterchangeable t.registry := by
  intro e he
  have hne : e.1 ≠ [] := by
    have := hw e.1 (Registry.entry_id_mem_allIds (n := e.2) he)
    intro h0; rw [h0] at this; exact absurd this (by decide)
  exact ⟨Registry.convertNames_name (by rw [RegTables.names_eq]; exact hn) he hne,
         Registry.convertNames_id (by rw [RegTables.names_eq]; exact hid e he)⟩

/-! ### The generated registry (re-checked on every run) -/

/-- every ID (plugins, blacklist rules, builtin) has the documented form `B` + three digits -/
theorem ids_wellformed : IdsWellformed Gen.tables := by decide +kernel

/-- no two of plugins ∪ distinct blacklist rules ∪ builtin share an ID -/
theorem ids_unique : IdsUnique Gen.tables := by decide +kernel

/-- no two registered entries share a name -/
theorem names_unique : NamesUnique Gen.tables := by decide +kernel

/-- no name is empty or coincides with a registered ID (it would be taken for that ID) -/
theorem names_are_not_ids : NamesAreNotIds Gen.tables := by decide +kernel

/-- `get_test_id (nameOf id) = id`, `check_id id`, and the by-ID dictionaries show the name -/
theorem id_name_bijection : Bijection Gen.tables.registry :=
  unique_implies_bijection _ ids_unique names_unique

/-- naming a registered entry by name or by ID resolves to the same ID … -/
theorem name_id_interchangeable : Interchangeable Gen.tables.registry :=
  unique_implies_interchangeable _ names_unique names_are_not_ids

/-- … and the nosec *comment parser* (regex model with the interpreter's character classes)
yields exactly that ID for `# nosec <name>` and for `# nosec <ID>`, for every registered entry -/
theorem nosec_name_id_interchangeable : ∀ e ∈ Gen.tables.registry.entries,
    Nosec.parse Gen.charClasses Gen.tables.registry ("# nosec ".toList ++ e.2) = some [e.1] ∧
    Nosec.parse Gen.charClasses Gen.tables.registry ("# nosec ".toList ++ e.1) = some [e.1] := by
  decide +kernel

/-- legacy profiles convert every registered name to its ID and leave IDs alone -/
theorem profile_name_id_interchangeable : ProfileInterchangeable Gen.tables.registry := by decide +kernel

/-- blacklist levels ∈ `RANKING`; every literal severity/confidence of every `Issue(...)` site in a
plugin module ∈ `RANKING`, both are supplied, every plugin module has a site.
(Non-literal rank expressions are `none` in the table and are checked at run time.) -/
theorem ranks_valid : RanksValid Gen.tables := by decide +kernel

/-- every blacklist rule has a non-zero CWE; every `Issue(...)` site passes `cwe=` and no literal
one is `Cwe.NOTSET` -/
theorem cwe_set : CweSet Gen.tables := by decide +kernel

/-- the model of `docs_utils.get_url` reproduces the URL recorded for every entry -/
theorem doc_url_model_agrees :
    (∀ p ∈ Gen.tables.plugins, p.url = docUrl Gen.tables.docBase Gen.tables.plugins Gen.tables.blacklist p.id) ∧
    (∀ b ∈ Gen.tables.blacklist, b.url = docUrl Gen.tables.docBase Gen.tables.plugins Gen.tables.blacklist b.id) := by
  decide +kernel

/-- IDs whose documentation URL is known to be dead on the unchanged tree -/
def knownDeadDocUrl : List Str := ["B508".toList, "B509".toList]

/-- **partial**: every plugin's documentation URL names an existing page of `doc/source/plugins`,
except for the listed IDs -/
theorem doc_page_exists_partial :
    ∀ p ∈ Gen.tables.plugins, p.id ∉ knownDeadDocUrl → PluginDocPageExists Gen.tables p := by
  decide +kernel

/-- **counter-example (known finding)**: for B508/B509 `get_url` builds the page name from the check
function's `__name__`, that page does not exist, while the page named after the *plugin name*
does -/
theorem NEG_doc_page_missing :
    ∀ p ∈ Gen.tables.plugins, p.id ∈ knownDeadDocUrl →
      ¬ PluginDocPageExists Gen.tables p ∧ p.func ≠ p.name ∧
      (Str.lower p.id ++ '_' :: p.name) ∈ Gen.tables.pluginDocPages := by
  decide +kernel

/-- every blacklist rule's URL names an existing page of `doc/source/blacklists` -/
theorem blacklist_doc_page_exists : ∀ b ∈ Gen.tables.blacklist, BlacklistDocPageExists Gen.tables b := by
  decide +kernel

/-- (observation, not demanded by the property) outside the XML group the `#fragment` is an existing
section of that page; for B313–B319 the page exists but the section is called `b313-b319-xml` -/
theorem blacklist_doc_anchor_exists_partial :
    ∀ b ∈ Gen.tables.blacklist, b.id ∉ xmlGroup → BlacklistDocAnchorExists Gen.tables b := by
  decide +kernel

/-- every entry point declared in `setup.cfg` is loaded (plugins: with an ID) **and** every
`@test_id` function, plugin file, formatter file and blacklist file is declared -/
theorem declared_iff_present : DeclaredLoaded Gen.tables ∧ PresentDeclared Gen.tables := by
  decide +kernel

/-- the generated row table is the registry the nosec/selection models (`Gen.registry`) use, and its
per-kind rule tables are the ones the blacklist model (`Gen.blTables`, C01) runs on
(kernel-checked in `Bandit/Proofs/C18/Coh*.lean`, one module each so they build in parallel) -/
theorem tables_coherent :
    (Gen.tables.registry.plugins = Gen.registry.plugins ∧ Gen.tables.registry.blacklist = Gen.registry.blacklist ∧
      Gen.tables.registry.builtin = Gen.registry.builtin) ∧
    Gen.blTables.rulesFor "Call".toList = Gen.tables.rules "Call".toList ∧
    Gen.blTables.rulesFor "Import".toList = Gen.tables.rules "Import".toList ∧
    Gen.blTables.rulesFor "ImportFrom".toList = Gen.tables.rules "ImportFrom".toList :=
  ⟨Bandit.Proofs.C18.coh_registry, Bandit.Proofs.C18.coh_call, Bandit.Proofs.C18.coh_import⟩

/-! ### Published rules -/

/-- **table level**: every published rule (frozen at the pinned commit) still exists under its ID
with every published qualified name and at least the published severity -/
theorem published_still_enforced :
    PublishedEnforced Published.rulesCall (Gen.tables.rules "Call".toList) ∧
    PublishedEnforced Published.rulesImport (Gen.tables.rules "Import".toList) ∧
    PublishedEnforced Published.rulesImportFrom (Gen.tables.rules "ImportFrom".toList) := by
  decide +kernel

/-- **behaviour level (calls)**: for every published call rule and each of its qualified names, the
rule that *wins* the first-match search of the current Call table has the published ID and at least
the published severity (no other rule shadows it) -/
theorem published_call_first_match :
    ∀ p ∈ Published.rulesCall, ∀ q ∈ p.qualnames,
      ∃ r ∈ Gen.tables.rules "Call".toList,
        firstCallRule (Gen.tables.rules "Call".toList) q = some r ∧ r.id = p.id ∧ p.level ≤ r.level ∧
        q ≠ "importlib.import_module".toList ∧ q ≠ "importlib.__import__".toList := by
  decide +kernel

/-- **behaviour level (imports)**: same for `import q` / `from q import …` -/
theorem published_import_first_match :
    ∀ p ∈ Published.rulesImport, ∀ q ∈ p.qualnames,
      ∃ r ∈ Gen.tables.rules "Import".toList,
        firstImportRule (Gen.tables.rules "Import".toList) [q] = some r ∧ r.id = p.id ∧ p.level ≤ r.level := by
  decide +kernel

/-- **Published call rules are reported** (C01's `call_reported` instantiated with the current
tables): a call anywhere in any program whose resolved name is a published qualified name yields a
finding with the published ID, at least the published severity, HIGH confidence, on the call's line. -/
theorem published_call_reported
    (checks : List Check) (inp : FileInput) (bc : Check)
    (pre post : List Visit) (v : Visit) (c : CallView) (pos : Pos) (p : Rule) (q : Str)
    (hp : p ∈ Published.rulesCall) (hq : q ∈ p.qualnames)
    (hv : visits inp.root = pre ++ v :: post)
    (hbc : blacklistCheck Gen.blTables = some bc) (hmem : bc ∈ checks)
    (hkind : v.node.kind = "Call".toList) (hc : v.node.erase.asCall? = some c) (hpos : v.node.pos = some pos)
    (hname : callName (stateAfter {} (pre ++ [v])).aliases c = q)
    (hni : c.func.nameId? ≠ some "__import__".toList)
    (hns : NoNosecOn inp.nosec (linerange v.node v.sib)) :
    ∃ f ∈ findingsOf (scanFile checks inp),
      f.id = p.id ∧ p.level ≤ f.sev ∧ f.conf = .high ∧ f.line = pos.line := by
  obtain ⟨r, _, hr, hid, hlev, hq1, hq2⟩ := published_call_first_match p hp q hq
  rw [← tables_coherent.2.1] at hr
  have hrid : r.id ≠ [] := by
    have hm := (firstCallRule_mem hr).1
    have e : Gen.blTables.rulesFor "Call".toList = Gen.rulesCall := by decide +kernel
    rw [e] at hm
    exact (Props.C01.gen_tables_wellformed.1 r (by simp [hm])).2
  exact ⟨_, Props.C01.call_reported checks inp Gen.blTables bc pre post v c pos r q hv hbc hmem hkind hc hpos
    hname hni hq1 hq2 hr hrid hns, hid, hlev, rfl, rfl⟩

/-- **Published import rules are reported** (C01's `import_reported` instantiated): an `import q`
statement anywhere in any program, `q` a published qualified name, yields a finding with the
published ID and at least the published severity, HIGH confidence, on the statement's line. -/
theorem published_import_reported
    (checks : List Check) (inp : FileInput) (bc : Check)
    (pre post : List Visit) (v : Visit) (pos : Pos) (p : Rule) (q : Str)
    (hp : p ∈ Published.rulesImport) (hq : q ∈ p.qualnames)
    (hv : visits inp.root = pre ++ v :: post)
    (hbc : blacklistCheck Gen.blTables = some bc) (hmem : bc ∈ checks)
    (hkind : v.node.kind = "Import".toList) (hpos : v.node.pos = some pos)
    (hnames : importFullNames v.node = [q])
    (hns : NoNosecOn inp.nosec (linerange v.node v.sib)) :
    ∃ f ∈ findingsOf (scanFile checks inp),
      f.id = p.id ∧ p.level ≤ f.sev ∧ f.conf = .high ∧ f.line = pos.line := by
  obtain ⟨r, _, hr, hid, hlev⟩ := published_import_first_match p hp q hq
  rw [← tables_coherent.2.2.1, ← hnames] at hr
  have hrid : r.id ≠ [] := by
    have hm := (firstImportRule_mem hr).1
    have e : Gen.blTables.rulesFor "Import".toList = Gen.rulesImport := by decide +kernel
    rw [e] at hm
    exact (Props.C01.gen_tables_wellformed.1 r (by simp [hm])).2
  exact ⟨_, Props.C01.import_reported checks inp Gen.blTables bc pre post v pos r "Import" hv hbc hmem
    (Or.inl rfl) hkind hpos hr hrid hns, hid, hlev, rfl, rfl⟩

/-! ### Selection on the command line: names are *not* resolved (known finding) -/

/-- selecting or skipping by **ID** does what it says, for every registered entry -/
theorem cli_select_by_id : ∀ e ∈ Gen.tables.registry.entries,
    e.1 ∈ Gen.tables.registry.getFilter [e.1] [] ∧ e.1 ∉ Gen.tables.registry.getFilter [] [e.1] := by
  decide +kernel

/-- **partial / generic form of the defect**: `_get_filter` never resolves names, so a token that is
not an ID selects no registered check (`-t name`) and skips none (`-s name`) — for any registry -/
theorem cli_select_by_name_partial (r : Registry) {n : Str} (hn : n ∉ r.allIds) (hb : n ≠ Registry.b001) :
    (∀ x ∈ r.getFilter [n] [], x ∉ r.allIds) ∧ r.getFilter [] [n] = r.getFilter [] [] :=
  ⟨Registry.getFilter_unknown_selects_nothing r [] hn hb, Registry.getFilter_skip_unknown r hn hb⟩

/-- **counter-example (known finding)**: for *every* registered entry, `-t <name>` does not run it
and `-s <name>` does not skip it, although `-t <ID>` / `-s <ID>` do -/
theorem NEG_cli_select_by_name : ∀ e ∈ Gen.tables.registry.entries,
    e.1 ∉ Gen.tables.registry.getFilter [e.2] [] ∧ e.1 ∈ Gen.tables.registry.getFilter [] [e.2] := by
  decide +kernel

/-- with the proposed fix (`get_test_id(t) or t` applied to `-t`/`-s` tokens) ID and name select the
same tests, for every registered entry -/
theorem cli_fixed_name_id_interchangeable : ∀ e ∈ Gen.tables.registry.entries,
    Gen.tables.registry.getFilterFixed [e.2] [] = Gen.tables.registry.getFilterFixed [e.1] [] ∧
    Gen.tables.registry.getFilterFixed [] [e.2] = Gen.tables.registry.getFilterFixed [] [e.1] := by
  intro e he
  have hne : e.1 ≠ [] := by
    have := ids_wellformed e.1 (Registry.entry_id_mem_allIds (n := e.2) he)
    intro h0; rw [h0] at this; exact absurd this (by decide)
  have hid : e.1 ∉ Gen.tables.registry.entries.map (·.2) := by
    rw [RegTables.names_eq]
    intro hm
    exact (names_are_not_ids e.1 hm).1 (Registry.entry_id_mem_allIds (n := e.2) he)
  exact Registry.getFilterFixed_name_eq_id (by rw [RegTables.names_eq]; exact names_unique) he hne hid

/-! ### `docs_utils.get_url` rewrites the shared registry (known finding) -/

/-- right after loading, id → name → id round-trips for every blacklist row -/
theorem registry_roundtrips_after_load : (BlState.load Gen.tables.registry.blacklist).RoundTrips := by
  decide +kernel

/-- **counter-example (known finding)**: after `get_url("B306")` the row shows the name `mktemp-q`,
which no lookup maps back to `B306` (the key in `blacklist_by_name` is still `mktemp_q`) -/
theorem NEG_get_url_mutates_names :
    let s := (BlState.load Gen.tables.registry.blacklist).getUrlStep "B306".toList
    s.nameOf "B306".toList = some "mktemp-q".toList ∧ s.idOfName "mktemp-q".toList = none ∧ ¬ s.RoundTrips := by
  decide +kernel

/-- the repaired `get_url` (copy before rewriting) keeps the round trip, whatever IDs are asked for -/
theorem get_url_fixed_roundtrips (ids : List Str) :
    (ids.foldl BlState.getUrlStepFixed (BlState.load Gen.tables.registry.blacklist)).RoundTrips := by
  have : ∀ (l : List Str) (s : BlState), l.foldl BlState.getUrlStepFixed s = s := by
    intro l; induction l with
    | nil => intro s; rfl
    | cons a l ih => intro s; exact ih s
  rw [this]; exact registry_roundtrips_after_load

/-! ### Non-vacuity -/

example : Gen.tables.plugins ≠ [] ∧ Gen.tables.blacklist ≠ [] ∧ Gen.tables.issueSites ≠ [] ∧
    Gen.tables.declared ≠ [] ∧ Published.rules ≠ [] := by decide +kernel

example : ("B101".toList, "assert_used".toList) ∈ Gen.tables.registry.entries ∧
    Gen.tables.registry.resolve "assert_used".toList = some "B101".toList := by decide +kernel

/-- the guard of `doc_page_exists_partial` excludes 2 plugins only -/
example : (Gen.tables.plugins.filter (fun p => knownDeadDocUrl.contains p.id)).length ≤ 2 := by decide +kernel

/-- `wellformedId` rejects near-misses -/
example : wellformedId "B10".toList = false ∧ wellformedId "b101".toList = false ∧
    wellformedId "B1011".toList = false ∧ wellformedId "B1x1".toList = false ∧ wellformedId "B101".toList = true := by decide

end Props.C18
