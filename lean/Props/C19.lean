import Bandit.Plugins.Trojan
import Bandit.Gen.Bidi
import Bandit.Lines
/-!
# C19 — Findings do not depend on how the source text reaches bandit

What bandit computes from the *decoded text* (lines, comment tokens) and the *AST* is independent of
the channel by construction: `scanFile` takes exactly those three inputs (`FileInput`) and nothing
else.  That CPython yields the same text / AST for LF vs CRLF, with or without a BOM, for a transcoded
file with a cookie, from a file or from stdin, is runtime behaviour: it is explored by the harness on
every run, not proved.  One step of it *is* modelled and proved: the split of the decoded text into the lines
`trojansource` iterates (`Bandit/Lines.lean`: the universal-newline decoder of a text-mode file, executed by the driver
on the text the harness decodes) — the section "line ends" below.
-/
namespace Props.C19
open Bandit Bandit.Plugins

/-- everything downstream of (AST, comment map, decoded lines) is a function of those three alone -/
theorem downstream_channel_independent (checks : List Check) (a b : FileInput)
    (h1 : a.root = b.root) (h2 : a.nosec = b.nosec) (h3 : a.lines = b.lines) :
    scanFile checks a = scanFile checks b := by
  cases a; cases b; simp_all

theorem firstTableChar_isSome_iff (table : List Char) (line : Str) :
    (firstTableChar table line).isSome ↔ ∃ ch ∈ table, ch ∈ line := by
  unfold firstTableChar
  rw [List.findSome?_isSome_iff]
  constructor
  · rintro ⟨ch, hch, h⟩
    refine ⟨ch, hch, ?_⟩
    cases hi : line.idxOf? ch with
    | none => simp [hi] at h
    | some i =>
      obtain ⟨hlt, heq, _⟩ := List.idxOf?_eq_some_iff.mp hi
      exact heq ▸ List.getElem_mem hlt
  · rintro ⟨ch, hch, hmem⟩
    refine ⟨ch, hch, ?_⟩
    cases hi : line.idxOf? ch with
    | none =>
      have := List.idxOf?_eq_none_iff.mp hi
      exact absurd hmem this
    | some i => simp

/-- **Completeness**: a listed character anywhere in the text is found — whatever line it sits on
(first, last, a comment, a string, next to an identifier: the scan does not look at syntax) -/
theorem bidi_complete (table : List Char) (k : Nat) (lines : List Str) :
    (scanBidi table k lines).isSome ↔ ∃ l ∈ lines, ∃ ch ∈ table, ch ∈ l := by
  induction lines generalizing k with
  | nil => simp [scanBidi]
  | cons l ls ih =>
    simp only [scanBidi]
    cases hf : firstTableChar table l with
    | some r =>
      obtain ⟨ch, col⟩ := r
      have := (firstTableChar_isSome_iff table l).mp (by simp [hf])
      simp only [Option.isSome_some, true_iff]
      exact ⟨l, by simp, this⟩
    | none =>
      have hnone : ¬ ∃ ch ∈ table, ch ∈ l := by
        intro h
        have := (firstTableChar_isSome_iff table l).mpr h
        simp [hf] at this
      simp only []
      rw [ih]
      constructor
      · rintro ⟨l', hl', h⟩; exact ⟨l', by simp [hl'], h⟩
      · rintro ⟨l', hl', h⟩
        rcases List.mem_cons.mp hl' with rfl | hl''
        · exact absurd h hnone
        · exact ⟨l', hl'', h⟩

/-- **Reported position is valid**: the reported line is the first line containing a listed
character, the reported character is listed and stands at the reported (1-based) column -/
theorem bidi_position_valid (table : List Char) (k : Nat) (lines : List Str) (ln col : Nat) (ch : Char)
    (h : scanBidi table k lines = some (ln, col, ch)) :
    ∃ i, ∃ hi : i < lines.length, ln = k + i ∧ ch ∈ table ∧ 1 ≤ col ∧ (lines[i])[col - 1]? = some ch ∧
      ∀ j, ∀ hj : j < i, ¬ ∃ c ∈ table, c ∈ lines[j]'(by omega) := by
  induction lines generalizing k with
  | nil => simp [scanBidi] at h
  | cons l ls ih =>
    simp only [scanBidi] at h
    cases hf : firstTableChar table l with
    | some r =>
      obtain ⟨ch', col'⟩ := r
      simp only [hf, Option.some.injEq, Prod.mk.injEq] at h
      obtain ⟨rfl, rfl, rfl⟩ := h
      unfold firstTableChar at hf
      obtain ⟨c0, hc0, hr⟩ := List.exists_of_findSome?_eq_some hf
      cases hi : l.idxOf? c0 with
      | none => simp [hi] at hr
      | some i =>
        simp only [hi, Option.some.injEq, Prod.mk.injEq] at hr
        obtain ⟨rfl, rfl⟩ := hr
        obtain ⟨hlt, heq, _⟩ := List.idxOf?_eq_some_iff.mp hi
        refine ⟨0, by simp, by simp, hc0, by omega, ?_, by intro j hj; omega⟩
        simp only [List.getElem_cons_zero, Nat.add_sub_cancel]
        rw [List.getElem?_eq_getElem hlt, heq]
    | none =>
      simp only [hf] at h
      obtain ⟨i, hi, h1, h2, h3, h4, h5⟩ := ih (k + 1) h
      have hnone : ¬ ∃ c ∈ table, c ∈ l := by
        intro hex
        have := (firstTableChar_isSome_iff table l).mpr hex
        simp [hf] at this
      refine ⟨i + 1, by simp; omega, by omega, h2, h3, by simpa using h4, ?_⟩
      intro j hj
      cases j with
      | zero => simpa using hnone
      | succ j => simpa using h5 j (by omega)

/-- **B613 fires iff the text contains a listed character**, with HIGH severity / MEDIUM confidence -/
theorem b613_iff (table : List Char) (e : Env) :
    (∃ r, b613 table e = .ok (some r)) ↔ ∃ l ∈ e.lines, ∃ ch ∈ table, ch ∈ l := by
  rw [← bidi_complete table 1 e.lines]
  unfold b613
  cases scanBidi table 1 e.lines with
  | none => simp [pure, Except.pure]
  | some r => obtain ⟨a, b, c⟩ := r; simp [pure, Except.pure]

/-- the check never raises -/
theorem b613_total (table : List Char) (e : Env) : ∃ r, b613 table e = .ok r := by
  unfold b613; split <;> exact ⟨_, rfl⟩

/-- the generated table still contains every published bidirectional control character -/
theorem gen_bidi_covers_published :
    ∀ c ∈ [0x202A, 0x202B, 0x202C, 0x202D, 0x202E, 0x2066, 0x2067, 0x2068, 0x2069, 0x200F],
      Gen.bidiCharacters.contains (Char.ofNat c) = true := by
  decide

example : scanBidi Gen.bidiCharacters 1 ["x = 1".toList, ['#', ' ', Char.ofNat 0x202E, 'a']] = some (2, 3, Char.ofNat 0x202E) := by
  decide

/-! ## line ends

The lines B613 iterates are `uniLines text` (`io.TextIOWrapper(newline=None).readlines()`); the driver computes them from the decoded text. -/

/-- **LF, CRLF and CR files have the same lines** (for a text that does not already contain `\r`) -/
theorem lines_newline_style_independent (s : LStr) (h : '\r' ∉ s) :
    uniLines (toCRLF s) = uniLines s ∧ uniLines (toCR s) = uniLines s :=
  ⟨uniLines_toCRLF s h, uniLines_toCR s h⟩

/-- … hence B613 decides the same and reports the same line and column for all three -/
theorem b613_newline_style_independent (table : List Char) (e : Env) (s : LStr) (h : '\r' ∉ s) :
    b613 table { e with lines := uniLines (toCRLF s) } = b613 table { e with lines := uniLines s } ∧
    b613 table { e with lines := uniLines (toCR s) } = b613 table { e with lines := uniLines s } := by
  rw [uniLines_toCRLF s h, uniLines_toCR s h]; exact ⟨rfl, rfl⟩

/-- **reading an already-normalised text changes nothing**: the lines of the newline-translated text are the lines of the text — a source that was
decoded once with universal newlines (standard input wrapped twice, a file re-read from its decoded form) is split into the same lines -/
theorem lines_renormalisation_stable (s : LStr) : translate (translate s) = translate s ∧ uniLines (translate s) = uniLines s := by
  have h : translate (translate s) = translate s := translateGo_noCR _ (translateGo_noCR_out s false)
  exact ⟨h, by simp only [uniLines, h]⟩

/-- … and B613 decides the same on it -/
theorem b613_renormalisation_stable (table : List Char) (e : Env) (s : LStr) :
    b613 table { e with lines := uniLines (translate s) } = b613 table { e with lines := uniLines s } := by
  rw [(lines_renormalisation_stable s).2]

/-- why `lines_newline_style_independent` is stated for one style per file: a lone-CR line end directly followed by an LF line end *is* a CRLF line end —
two empty lines written `\r` then `\n` are one line end to every universal-newline reader (and to the Python tokenizer) -/
example : uniLines ['a', '\r', '\n', 'b'] = [['a', '\n'], ['b']] ∧ uniLines ['a', '\n', '\n', 'b'] = [['a', '\n'], ['\n'], ['b']] := by decide

/-- **nothing of the text escapes the scan**: the lines concatenate to the (newline-translated) text, no line holds a `\r`, `\n` only ends lines,
and line `i` starts right after the `i`-th line end — the line numbering of the parser -/
theorem lines_partition_text (s : LStr) :
    (uniLines s).flatten = translate s ∧
    (∀ l ∈ uniLines s, l ≠ [] ∧ '\n' ∉ l.dropLast ∧ '\r' ∉ l) ∧
    ∀ i, i < (uniLines s).length → ((uniLines s).take i).flatten.count '\n' = i :=
  ⟨uniLines_flatten s, uniLines_shape s, uniLines_count s⟩

/-- a text that ends with a line end — as every source file an editor saves does — has exactly as many lines as it has line ends of any style: the line
numbers B613 reports run over the same lines the parser numbers -/
theorem line_count_is_line_end_count (s : LStr) (h : (translate s).getLast? = some '\n') :
    (uniLines s).length = (translate s).count '\n' :=
  uniLines_length_of_ends_nl s h

example : (translate "a\r\nb\rc\n".toList).getLast? = some '\n' ∧ (uniLines "a\r\nb\rc\n".toList).length = 3 := by decide

/-- **a listed character anywhere in the decoded text is reported**, whatever the line ends of the file are -/
theorem bidi_anywhere_in_text_reported (table : List Char) (e : Env) (s : LStr) (ch : Char)
    (hch : ch ∈ table) (hs : ch ∈ s) (h1 : ch ≠ '\r') (h2 : ch ≠ '\n') :
    ∃ r, b613 table { e with lines := uniLines s } = .ok (some r) := by
  rw [b613_iff]
  obtain ⟨l, hl, hm⟩ := mem_uniLines s ch hs h1 h2
  exact ⟨l, hl, ch, hch, hm⟩

/-- … and a text without listed characters is silent: line splitting invents nothing -/
theorem no_bidi_no_report (table : List Char) (e : Env) (s : LStr) (h : ∀ ch ∈ table, ch ∉ s) (hn : '\n' ∉ table) :
    b613 table { e with lines := uniLines s } = .ok none := by
  have hnot : ¬ ∃ r, b613 table { e with lines := uniLines s } = .ok (some r) := by
    rw [b613_iff]
    rintro ⟨l, hl, ch, hch, hm⟩
    have hin : ch ∈ translate s := by rw [← uniLines_flatten]; exact List.mem_flatten.2 ⟨l, hl, hm⟩
    exact mem_translate_orig s ch hin (fun e => hn (e ▸ hch)) (h ch hch)
  obtain ⟨r, hr⟩ := b613_total table { e with lines := uniLines s }
  cases r with
  | none => exact hr
  | some r => exact absurd ⟨r, hr⟩ hnot

/-- the generated table holds no line-end character, so the side conditions above are met by every listed character -/
theorem gen_bidi_no_line_ends : '\r' ∉ Gen.bidiCharacters ∧ '\n' ∉ Gen.bidiCharacters := by decide

example : uniLines "a\r\nb\rc\n\x0cd".toList = ["a\n".toList, "b\n".toList, "c\n".toList, "\x0cd".toList] := by decide
example : uniLines (toCRLF "x = 1\n# y\n".toList) = ["x = 1\n".toList, "# y\n".toList] := by decide

end Props.C19
