import Bandit.Plugins.Trojan
import Bandit.Gen.Bidi
/-!
# C19 — Findings do not depend on how the source text reaches bandit

What bandit computes from the *decoded text* (lines, comment tokens) and the *AST* is independent of
the channel by construction: `scanFile` takes exactly those three inputs (`FileInput`) and nothing
else.  That CPython yields the same text / AST for LF vs CRLF, with or without a BOM, for a transcoded
file with a cookie, from a file or from stdin, is runtime behaviour: it is explored by the harness on
every run, not proved.
-/
namespace Props.C19
open Bandit Bandit.Plugins

/-- everything downstream of (AST, comment map, decoded lines) is a function of those three alone -/
theorem downstream_channel_independent (checks : List Check) (a b : FileInput)
    (h1 : a.root = b.root) (h2 : a.nosec = b.nosec) (h3 : a.lines = b.lines) :
    scanFile checks a = scanFile checks b := by
  cases a; cases b; simp_all

theorem firstTableChar_isSome_iff (table : List Char) (line : Str) :
    (firstTableChar table line).isSome ↔ ∃ ch ∈ table, ch ∈ line := by
  unfold firstTableChar
  rw [List.findSome?_isSome_iff]
  constructor
  · rintro ⟨ch, hch, h⟩
    refine ⟨ch, hch, ?_⟩
    cases hi : line.idxOf? ch with
    | none => simp [hi] at h
    | some i =>
      obtain ⟨hlt, heq, _⟩ := List.idxOf?_eq_some_iff.mp hi
      exact heq ▸ List.getElem_mem hlt
  · rintro ⟨ch, hch, hmem⟩
    refine ⟨ch, hch, ?_⟩
    cases hi : line.idxOf? ch with
    | none =>
      have := List.idxOf?_eq_none_iff.mp hi
      exact absurd hmem this
    | some i => simp

/-- **Completeness**: a listed character anywhere in the text is found — whatever line it sits on
(first, last, a comment, a string, next to an identifier: the scan does not look at syntax) -/
theorem bidi_complete (table : List Char) (k : Nat) (lines : List Str) :
    (scanBidi table k lines).isSome ↔ ∃ l ∈ lines, ∃ ch ∈ table, ch ∈ l := by
  induction lines generalizing k with
  | nil => simp [scanBidi]
  | cons l ls ih =>
    simp only [scanBidi]
    cases hf : firstTableChar table l with
    | some r =>
      obtain ⟨ch, col⟩ := r
      have := (firstTableChar_isSome_iff table l).mp (by simp [hf])
      simp only [Option.isSome_some, true_iff]
      exact ⟨l, by simp, this⟩
    | none =>
      have hnone : ¬ ∃ ch ∈ table, ch ∈ l := by
        intro h
        have := (firstTableChar_isSome_iff table l).mpr h
        simp [hf] at this
      simp only []
      rw [ih]
      constructor
      · rintro ⟨l', hl', h⟩; exact ⟨l', by simp [hl'], h⟩
      · rintro ⟨l', hl', h⟩
        rcases List.mem_cons.mp hl' with rfl | hl''
        · exact absurd h hnone
        · exact ⟨l', hl'', h⟩

/-- **Reported position is valid**: the reported line is the first line containing a listed
character, the reported character is listed and stands at the reported (1-based) column -/
theorem bidi_position_valid (table : List Char) (k : Nat) (lines : List Str) (ln col : Nat) (ch : Char)
    (h : scanBidi table k lines = some (ln, col, ch)) :
    ∃ i, ∃ hi : i < lines.length, ln = k + i ∧ ch ∈ table ∧ 1 ≤ col ∧ (lines[i])[col - 1]? = some ch ∧
      ∀ j, ∀ hj : j < i, ¬ ∃ c ∈ table, c ∈ lines[j]'(by omega) := by
  induction lines generalizing k with
  | nil => simp [scanBidi] at h
  | cons l ls ih =>
    simp only [scanBidi] at h
    cases hf : firstTableChar table l with
    | some r =>
      obtain ⟨ch', col'⟩ := r
      simp only [hf, Option.some.injEq, Prod.mk.injEq] at h
      obtain ⟨rfl, rfl, rfl⟩ := h
      unfold firstTableChar at hf
      obtain ⟨c0, hc0, hr⟩ := List.exists_of_findSome?_eq_some hf
      cases hi : l.idxOf? c0 with
      | none => simp [hi] at hr
      | some i =>
        simp only [hi, Option.some.injEq, Prod.mk.injEq] at hr
        obtain ⟨rfl, rfl⟩ := hr
        obtain ⟨hlt, heq, _⟩ := List.idxOf?_eq_some_iff.mp hi
        refine ⟨0, by simp, by simp, hc0, by omega, ?_, by intro j hj; omega⟩
        simp only [List.getElem_cons_zero, Nat.add_sub_cancel]
        rw [List.getElem?_eq_getElem hlt, heq]
    | none =>
      simp only [hf] at h
      obtain ⟨i, hi, h1, h2, h3, h4, h5⟩ := ih (k + 1) h
      have hnone : ¬ ∃ c ∈ table, c ∈ l := by
        intro hex
        have := (firstTableChar_isSome_iff table l).mpr hex
        simp [hf] at this
      refine ⟨i + 1, by simp; omega, by omega, h2, h3, by simpa using h4, ?_⟩
      intro j hj
      cases j with
      | zero => simpa using hnone
      | succ j => simpa using h5 j (by omega)

/-- **B613 fires iff the text contains a listed character**, with HIGH severity / MEDIUM confidence -/
theorem b613_iff (table : List Char) (e : Env) :
    (∃ r, b613 table e = .ok (some r)) ↔ ∃ l ∈ e.lines, ∃ ch ∈ table, ch ∈ l := by
  rw [← bidi_complete table 1 e.lines]
  unfold b613
  cases scanBidi table 1 e.lines with
  | none => simp [pure, Except.pure]
  | some r => obtain ⟨a, b, c⟩ := r; simp [pure, Except.pure]

/-- the check never raises -/
theorem b613_total (table : List Char) (e : Env) : ∃ r, b613 table e = .ok r := by
  unfold b613; split <;> exact ⟨_, rfl⟩

/-- the generated table still contains every published bidirectional control character -/
theorem gen_bidi_covers_published :
    ∀ c ∈ [0x202A, 0x202B, 0x202C, 0x202D, 0x202E, 0x2066, 0x2067, 0x2068, 0x2069, 0x200F],
      Gen.bidiCharacters.contains (Char.ofNat c) = true := by
  decide

example : scanBidi Gen.bidiCharacters 1 ["x = 1".toList, ['#', ' ', Char.ofNat 0x202E, 'a']] = some (2, 3, Char.ofNat 0x202E) := by
  decide

end Props.C19
