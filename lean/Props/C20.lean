import Bandit.Proofs.BaselineTool
import Bandit.Gen.BaselineShape
/-!
# C20 — bandit-baseline leaves the git repository as it found it

Model: `Bandit/BaselineTool.lean` (`main sh pre sc r`: the tool run from repository state `r` under
preconditions `pre`, with outcome assignment `sc` to the five points of its sequence, for the shape
`sh` of `baseline_setup` — `Shape.current` is the pinned code, `Shape.fixed` the code with
`try/finally`; `Gen.baselineShape` is the shape the translator reads off /repo on every run).
Only property theorems live here (helper lemmas are in `Bandit/Proofs/BaselineTool.lean`).
-/
namespace Props.C20
open Bandit Bandit.BaselineTool Bandit.BaselineTool.Spec

/-- **Restores always (repaired code).**  With both clean-up statements in a `finally`, the tool
leaves HEAD, the branch, the tracked files, the temp-dir count and the stray files exactly as it found
them (the report file may appear, only when one was asked for) for **every** outcome of the parent
checkout, first run, current checkout and second run — exit 0/1/k, signal, missing executable,
KeyboardInterrupt, any other exception, failing checkout — whatever the preconditions, provided the
clean-up checkout itself can still work (`Recoverable`: it succeeds or nothing had been moved). -/
theorem restores_always (pre : Pre) (sc : Scenario) (r : Repo)
    (hwf : r.WF) (hp : r.precious = false) (hrec : Recoverable sc) :
    Restored pre.fmt r (main Shape.fixed pre sc r).1 := by
  unfold main
  split
  · exact restored_refl _ _
  · split
    · exact restored_refl _ _
    · rename_i _ hinit
      have hd : r.dirty = false := by
        have := (initializeOk_iff pre r).1 (by simpa using hinit)
        exact this.2.2.1
      split
      · exact restored_refl _ _
      · rename_i p _
        have := withSetup_restored Shape.fixed p pre.fmt sc r hwf hd hp (Or.inl ⟨rfl, hrec⟩)
        split <;> simp_all

/-- **Every single point of failure** of the property's quantifier (parent checkout, first run,
current checkout, second run, clean-up) is covered by `restores_always`: at most one raising point. -/
theorem restores_single_fault (pre : Pre) (sc : Scenario) (r : Repo)
    (hwf : r.WF) (hp : r.precious = false) (h1 : faults sc ≤ 1) :
    Restored pre.fmt r (main Shape.fixed pre sc r).1 :=
  restores_always pre sc r hwf hp (recoverable_of_faults_le_one h1)

/-- **Restores (partial, any shape — in particular the pinned code).**  Under the guard `Quiet`
(no step raises anything other than CalledProcessError and the two checkouts of the loop succeed) the
repository is restored for every pair of exit statuses/signals, whatever `baseline_setup` looks like
and even if the clean-up checkout fails. -/
theorem restores_partial (sh : Shape) (pre : Pre) (sc : Scenario) (r : Repo)
    (hwf : r.WF) (hp : r.precious = false) (hq : Quiet sc) :
    Restored pre.fmt r (main sh pre sc r).1 := by
  unfold main
  split
  · exact restored_refl _ _
  · split
    · exact restored_refl _ _
    · rename_i _ hinit
      have hd : r.dirty = false := by
        have := (initializeOk_iff pre r).1 (by simpa using hinit)
        exact this.2.2.1
      split
      · exact restored_refl _ _
      · rename_i p _
        have := withSetup_restored sh p pre.fmt sc r hwf hd hp (Or.inr hq)
        split <;> simp_all

/-! ### Witnesses: a repository on a branch at commit 1 whose parent is commit 0 -/

/-- clean repository, HEAD → branch → commit 1, nothing lying around -/
def repo0 : Repo :=
  { head := 1, branchTip := some 1, work := 1, dirty := false, precious := false, tmpDirs := 0,
    report := false, cwdTmpFile := false }

/-- `bandit-baseline <target>` from the root of that repository -/
def pre0 : Pre :=
  { usageOk := true, gitModule := true, kind := .root, fmt := .terminal, dashO := false, parent := some 0 }

def allOk : Scenario := ⟨.ok, .exit 0, .ok, .exit 0, .ok⟩

/-- **Counter-example for the pinned code** (known finding C20-no-try-finally): no `bandit` on PATH.
The first `check_output` raises FileNotFoundError, nothing after the `yield` runs: HEAD *and the
branch* are left at the parent commit, the temp dir is leaked, the process ends in a traceback. -/
theorem NEG_missing_bandit_step1 :
    let out := main Shape.current pre0 { allOk with run1 := .missing } repo0
    out.1.head = 0 ∧ out.1.branchTip = some 0 ∧ out.1.work = 0 ∧ out.1.tmpDirs = 1 ∧
    out.2 = .raised .fileNotFound ∧ faults { allOk with run1 := .missing } = 1 ∧
    ¬ Restored pre0.fmt repo0 out.1 := by
  decide

/-- **Second counter-example for the pinned code**: Ctrl-C during the comparison run.  HEAD is
already back at the current commit, but the temp dir (holding the baseline report) is leaked. -/
theorem NEG_interrupt_step2_leaks_tmpdir :
    let out := main Shape.current pre0 { allOk with run2 := .interrupt } repo0
    out.1.head = 1 ∧ out.1.branchTip = some 1 ∧ out.1.tmpDirs = 1 ∧ out.2 = .raised .keyboardInterrupt ∧
    ¬ Restored pre0.fmt repo0 out.1 := by
  decide

/-- **Counter-example for every shape** (known finding C20-untracked-clobbered): an untracked file
at a path the parent commit tracks is overwritten by the parent checkout and deleted by the current
checkout — on a fully successful run.  `is_dirty()` ignores untracked files, so the tool starts. -/
theorem NEG_untracked_file_clobbered (sh : Shape) :
    let r := { repo0 with precious := true }
    let out := main sh pre0 allOk r
    ¬ MustRefuse pre0 r ∧ out.2 = .code 0 ∧ out.1.precious = false ∧ ¬ Restored pre0.fmt r out.1 := by
  obtain ⟨a, b⟩ := sh
  cases a <;> cases b <;> decide

/-- **Refusal table.**  On a dirty tree, outside a repository root (or without a usable git), with a
literal `-o`, or when the report it would write or its temporary file already exists, the tool
exits with status 2 and has not touched anything — for every shape, every outcome assignment, and
whatever else is true. -/
theorem refuses_table (sh : Shape) (pre : Pre) (sc : Scenario) (r : Repo) (h : MustRefuse pre r) :
    main sh pre sc r = (r, .code 2) := by
  unfold main
  split
  · rfl
  · simp [initializeOk_false_of_mustRefuse h]

/-- **… and only then** (with a usable command line, GitPython and a parent commit): if none of the
refusal conditions holds the tool does start — it creates its temp dir and reaches the first run
(observable here: a missing executable at step 1 surfaces as that exception, not as exit 2). -/
theorem starts_when_allowed (sh : Shape) (pre : Pre) (sc : Scenario) (r : Repo) (p : Commit)
    (hu : pre.usageOk = true) (hg : pre.gitModule = true) (hpar : pre.parent = some p)
    (h : ¬ MustRefuse pre r) (h1 : sc.co1 = .ok) (hm : sc.run1 = .missing) :
    (main sh pre sc r).2 ≠ .code 2 := by
  have hi : initializeOk pre r = true := by
    rw [initializeOk_iff]
    unfold MustRefuse at h
    refine ⟨hg, ?_, ?_, ?_, ?_, ?_⟩
    · exact Classical.not_not.1 (fun hk => h (Or.inr (Or.inl hk)))
    · cases hd : r.dirty <;> simp_all
    · exact fun hh => h (Or.inr (Or.inr (Or.inr (Or.inl hh))))
    · cases hd : r.cwdTmpFile <;> simp_all
    · cases hd : pre.dashO <;> simp_all
  obtain ⟨co1, run1, co2, run2, co3⟩ := sc
  simp only at h1 hm
  subst h1 hm
  obtain ⟨a, b⟩ := sh
  cases a <;> cases b <;> cases co3 <;>
    simp [main, hu, hi, hpar, withSetup, runSteps, steps, Run.result, cleanupReset]

/-- **Exit status.**  When the tool gets to the comparison run and that run ends with status `c`
(`-n` for signal `n`), the tool exits with `c` — whatever the first run's status was. -/
theorem exit_is_second_run (sh : Shape) (pre : Pre) (sc : Scenario) (r : Repo) (p : Commit) (c : Int)
    (hu : pre.usageOk = true) (hg : pre.gitModule = true) (hpar : pre.parent = some p)
    (h : ¬ MustRefuse pre r) (hc : ComparisonStatus sc c) (h3 : sc.co3 = .ok) :
    (main sh pre sc r).2 = .code c := by
  have hi : initializeOk pre r = true := by
    rw [initializeOk_iff]
    unfold MustRefuse at h
    refine ⟨hg, ?_, ?_, ?_, ?_, ?_⟩
    · exact Classical.not_not.1 (fun hk => h (Or.inr (Or.inl hk)))
    · cases hd : r.dirty <;> simp_all
    · exact fun hh => h (Or.inr (Or.inr (Or.inr (Or.inl hh))))
    · cases hd : r.cwdTmpFile <;> simp_all
    · cases hd : pre.dashO <;> simp_all
  have hs := withSetup_status sh r.head p pre.fmt sc r c hc h3
  unfold main
  simp only [hu, hi, hpar, Bool.not_true, Bool.false_eq_true, if_false]
  split <;> simp_all

/-! ### The code as it is now -/

/-- what is claimed of a given shape of `baseline_setup`: the full property when both clean-up
statements are protected, otherwise the guarded statement together with the witness that the guard
cannot be dropped -/
def Claim (sh : Shape) : Prop :=
  if sh.rmtreeInFinally = true ∧ sh.resetInFinally = true then
    ∀ (pre : Pre) (sc : Scenario) (r : Repo), r.WF → r.precious = false → Recoverable sc →
      Restored pre.fmt r (main sh pre sc r).1
  else
    (∀ (pre : Pre) (sc : Scenario) (r : Repo), r.WF → r.precious = false → Quiet sc →
      Restored pre.fmt r (main sh pre sc r).1) ∧
    ∃ sc, faults sc = 1 ∧ ¬ Restored pre0.fmt repo0 (main sh pre0 sc repo0).1

/-- the shape found in /repo is one of the two modelled ones (a third shape — e.g. only `rmtree`
protected — breaks this obligation and is then judged by the correspondence run alone) -/
theorem gen_shape_classified :
    Gen.baselineShape = Shape.current ∨ Gen.baselineShape = Shape.fixed := by
  decide

/-- **The verdict for /repo as it is on this run**: builds unchanged before and after the repair. -/
theorem active_claim : Claim Gen.baselineShape := by
  rcases gen_shape_classified with h | h <;> rw [h]
  · refine ⟨fun pre sc r hwf hp hq => restores_partial _ pre sc r hwf hp hq,
      { allOk with run1 := .missing }, by decide, by decide⟩
  · exact fun pre sc r hwf hp hrec => restores_always pre sc r hwf hp hrec

/-! ### Non-vacuity -/

/-- the witness repository satisfies the hypotheses of the restore theorems and is not refused -/
example : repo0.WF ∧ repo0.precious = false ∧ ¬ MustRefuse pre0 repo0 := by decide

/-- `Recoverable` / `faults ≤ 1` / `Quiet` hold of non-trivial scenarios: bandit missing at step 1;
both runs failing (exit 2, then killed by SIGKILL) -/
example : Recoverable { allOk with run1 := .missing } ∧ faults { allOk with run1 := .missing } ≤ 1 ∧
    Quiet ⟨.ok, .exit 2, .ok, .signal 9, .fail⟩ := by decide

/-- the repaired code on the scenario of `NEG_missing_bandit_step1`: same traceback, repository intact -/
example : main Shape.fixed pre0 { allOk with run1 := .missing } repo0 = (repo0, .raised .fileNotFound) := by
  decide

/-- `Recoverable` cannot be dropped from `restores_always`: current checkout *and* clean-up checkout
fail (git itself is broken) — no code can restore that -/
example : ¬ Restored pre0.fmt repo0 (main Shape.fixed pre0 ⟨.ok, .exit 0, .fail, .exit 0, .fail⟩ repo0).1 := by
  decide

/-- findings at the comparison run: exit status 1, report written because one was asked for -/
example : main Shape.current { pre0 with fmt := .file } { allOk with run1 := .exit 2, run2 := .exit 1 } repo0
    = ({ repo0 with report := true }, .code 1) := by decide

/-- each refusal condition is satisfiable (and refused) -/
example : MustRefuse pre0 { repo0 with dirty := true } ∧ MustRefuse { pre0 with kind := .notRepo } repo0 ∧
    MustRefuse { pre0 with dashO := true } repo0 ∧
    MustRefuse { pre0 with fmt := .file } { repo0 with report := true } ∧
    MustRefuse pre0 { repo0 with cwdTmpFile := true } ∧
    ¬ MustRefuse pre0 { repo0 with report := true } := by decide

end Props.C20
