import Bandit.Ast
namespace Props.Smoke
open Bandit
theorem visited {n m} (h : Below n m) : ∃ v ∈ visits n, v.node = m := below_visited h []
end Props.Smoke
