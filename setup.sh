#!/bin/sh
# Build the framework from files on disk only (offline).
set -e
cd "$(dirname "$0")"
/venv/bin/python harness/translate.py
cd lean
lake build Bandit Props driver Audit
