#!/bin/sh
# confirm every mutant under /tmp/seed in a private worktree; meant for `vp run`
cd "$(dirname "$0")/.."
export MUT_WT=/tmp/mutwt_run
git -C /repo worktree add -q --detach $MUT_WT HEAD 2>/dev/null || true
./setup.sh >/dev/null 2>&1
for P in "$@"; do
  for N in 1 2; do
    [ -f /tmp/seed/$P/mutant$N.diff ] && python3 tools/confirm_mutant.py $P $N
  done
done
git -C /repo worktree remove --force $MUT_WT
