#!/usr/bin/env python3
"""Confirm a seeded mutant in a scratch worktree of /repo and file it under /verif/seeded/<name>/.
usage: confirm_mutant.py <ID> <n> [check ids...]   (reads $SEED_DIR/<ID>/mutant<n>.diff, demo<n>.py, meta<n>.json; SEED_DIR defaults to /tmp/seed; stored as <ID>-m<n+SEED_OFFSET>)"""
import json, os, shutil, subprocess, sys
pid, n = sys.argv[1], sys.argv[2]
checks = sys.argv[3:] or [pid]
src = os.path.join(os.environ.get("SEED_DIR", "/tmp/seed"), pid)
VERIF = os.path.dirname(os.path.dirname(os.path.abspath(__file__)))
WT = os.environ.get("MUT_WT", "/tmp/mywt")
def sh(cmd, cwd=None, env=None):
    p = subprocess.run(cmd, shell=True, cwd=cwd, env=env, capture_output=True, text=True)
    return p.returncode, (p.stdout + p.stderr)
head = subprocess.check_output(["git", "-C", "/repo", "rev-parse", "HEAD"], text=True).strip()
sh(f"git -C {WT} checkout -q --detach {head}; git -C {WT} reset -q --hard HEAD")
env = dict(os.environ, PYTHONPATH=WT)
rc_clean, out_clean = sh(f"/venv/bin/python {src}/demo{n}.py", cwd=WT, env=env)
rc, out = sh(f"git -C {WT} apply {src}/mutant{n}.diff")
assert rc == 0, out
_, tests = sh("/venv/bin/python -m pytest -q -p no:cacheprovider tests 2>&1 | tail -1", cwd=WT)
rc_mut, out_mut = sh(f"/venv/bin/python {src}/demo{n}.py", cwd=WT, env=env)
results = {}
for c in checks:
    _, o = sh(f"BANDIT_REPO={WT} ./check {c} --tier quick 2>&1 | grep -E 'VIOLATION|tier=' | tail -3", cwd=VERIF)
    results[c] = o.strip().splitlines()
sh(f"git -C {WT} reset -q --hard HEAD")
sh("/venv/bin/python harness/translate.py", cwd=VERIF)
ok = rc_clean == 0 and rc_mut != 0 and "256 passed" in tests and "17 failed" in tests
name = f"{pid}-m{int(n) + int(os.environ.get('SEED_OFFSET', '0'))}"
meta = json.load(open(f"{src}/meta{n}.json"))
caught = {c: any("VIOLATION" in l for l in ls) for c, ls in results.items()}
meta.update({"id": name, "breaks_property": pid, "repo_head": head[:7],
             "confirmed": {"demo_exit_clean": rc_clean, "demo_exit_mutated": rc_mut, "pytest_with_mutant": tests.strip(),
                           "demo_tail_mutated": out_mut.strip().splitlines()[-3:]},
             "what_i_ran": [f"git -C <scratch worktree of /repo @{head[:7]}> apply patch.diff", "cd <worktree> && /venv/bin/python -m pytest -q -p no:cacheprovider tests",
                            "cd <worktree> && PYTHONPATH=<worktree> /venv/bin/python demo.py  (clean and mutated)",
                            *[f"BANDIT_REPO=<worktree> ./check {c} --tier quick" for c in checks]],
             "checks": results, "caught_by": [c for c, v in caught.items() if v], "missed_by": [c for c, v in caught.items() if not v]})
print(name, "confirmed" if ok else "NOT-CONFIRMED", "tests:", tests.strip(), "demo clean/mut:", rc_clean, rc_mut, "caught:", caught)
if ok:
    d = f"{VERIF}/seeded/{name}"
    os.makedirs(d, exist_ok=True)
    shutil.copy(f"{src}/mutant{n}.diff", f"{d}/patch.diff")
    shutil.copy(f"{src}/demo{n}.py", f"{d}/demo.py")
    json.dump(meta, open(f"{d}/meta.json", "w"), indent=1)
