#!/usr/bin/env python3
"""Confirm a whole round of seeded changes in K parallel workers.

Each worker owns a scratch worktree of /repo and a private copy of /verif (translate + lake build write there), both
under --root and removed at the end; tools/confirm_mutant.py (the single-change tool) runs inside the private copy and
the confirmed seeded/<id>-m<k>/ directories are copied back into this /verif.

    tools/confirm_round.py --seed-dir /tmp/seed4 --offset 6 --workers 8 [C01 C02 ...]"""
import argparse, glob, os, queue, shutil, subprocess, threading

VERIF = os.path.dirname(os.path.dirname(os.path.abspath(__file__)))


def sh(cmd, cwd=None, env=None):
    p = subprocess.run(cmd, shell=True, cwd=cwd, env=env, capture_output=True, text=True)
    return p.returncode, p.stdout + p.stderr


def worker(w, a, q, lock):
    d = os.path.join(a.root, f"w{w}")
    env = dict(os.environ, MUT_WT=f"{d}/repo", SEED_DIR=a.seed_dir, SEED_OFFSET=str(a.offset))
    while True:
        try:
            pid, n = q.get_nowait()
        except queue.Empty:
            return
        rc, o = sh(f"python3 tools/confirm_mutant.py {pid} {n}", cwd=f"{d}/verif", env=env)
        name = f"{pid}-m{n + a.offset}"
        src = f"{d}/verif/seeded/{name}"
        with lock:
            print(o.strip().splitlines()[-1] if o.strip() else f"{name}: no output (rc={rc})", flush=True)
            if os.path.isdir(src):
                shutil.rmtree(f"{VERIF}/seeded/{name}", ignore_errors=True)
                shutil.copytree(src, f"{VERIF}/seeded/{name}")
                for rp in glob.glob(f"{d}/verif/replays/{pid}/*"):
                    pass   # replays stay in the private copy: paths in meta.json are informative only


def main():
    ap = argparse.ArgumentParser()
    ap.add_argument("--seed-dir", required=True)
    ap.add_argument("--offset", type=int, default=0)
    ap.add_argument("--workers", type=int, default=6)
    ap.add_argument("--root", default="/tmp/cr")
    ap.add_argument("--only", default=None, help="comma list of <ID>:<n> pairs")
    ap.add_argument("props", nargs="*")
    a = ap.parse_args()
    props = a.props or sorted(p for p in os.listdir(a.seed_dir) if os.path.isdir(os.path.join(a.seed_dir, p)) and not p.endswith("_wt"))
    jobs = [(p, n) for p in props for n in (1, 2) if os.path.exists(f"{a.seed_dir}/{p}/mutant{n}.diff")]
    if a.only:
        want = {tuple(x.split(":")) for x in a.only.split(",")}
        jobs = [j for j in jobs if (j[0], str(j[1])) in want]
    shutil.rmtree(a.root, ignore_errors=True)
    os.makedirs(a.root)
    head = subprocess.check_output(["git", "-C", "/repo", "rev-parse", "HEAD"], text=True).strip()
    nw = min(a.workers, len(jobs))
    for w in range(nw):
        d = os.path.join(a.root, f"w{w}")
        os.makedirs(d)
        sh(f"git -C /repo worktree add --detach {d}/repo {head}")
        sh(f"rsync -a --exclude .git --exclude replays {VERIF}/ {d}/verif/")
    q = queue.Queue()
    for j in jobs:
        q.put(j)
    lock = threading.Lock()
    ts = [threading.Thread(target=worker, args=(w, a, q, lock)) for w in range(nw)]
    for t in ts:
        t.start()
    for t in ts:
        t.join()
    for w in range(nw):
        sh(f"git -C /repo worktree remove --force {a.root}/w{w}/repo")
    shutil.rmtree(a.root, ignore_errors=True)
    sh("git -C /repo worktree prune")


if __name__ == "__main__":
    main()
