#!/bin/sh
# Which lines / branches of /repo's bandit package are executed by the quick checks at all?  Code the harness never runs is
# code whose behaviour the correspondence cannot see (the theorems are about the model, the tie is sampled).
# usage: tools/coverage_tie.sh [Cxx ...]   -> prints the per-file summary and the missing lines; data under /tmp/cov (scratch)
cd "$(dirname "$0")/.."
OUT=${COV_OUT:-/tmp/cov}
mkdir -p "$OUT"; rm -f "$OUT"/.coverage*
IDS=${*:-$(python3 -c "import json;print(' '.join(c['property_id'] for c in json.load(open('MANIFEST.json'))['checks']))")}
for p in $IDS; do
  COVERAGE_FILE="$OUT/.coverage.$p" /venv/bin/python -m coverage run --branch --source=/repo/bandit --parallel-mode check "$p" --tier quick --no-build >/dev/null 2>&1
done
cd "$OUT" && /venv/bin/python -m coverage combine -q .coverage.* >/dev/null 2>&1
/venv/bin/python -m coverage report --skip-covered --show-missing --include='/repo/bandit/*' 2>/dev/null
