#!/bin/sh
# Apply every seeded change to /repo itself (as the brief describes), run the property's registered quick check, undo straight afterwards.
# Records exit status and VIOLATION line in seeded/<id>/meta.json (key "applied_to_repo").
cd "$(dirname "$0")/.."
test -z "$(git -C /repo status --porcelain)" || { echo "/repo not clean"; exit 2; }
for d in ${SEEDED:-seeded/*/}; do
  id=$(basename "$d"); prop=${id%%-*}
  git -C /repo apply "$PWD/${d}patch.diff" || { echo "$id: patch does not apply"; continue; }
  out=$(./check "$prop" --tier quick 2>&1); rc=$?
  git -C /repo checkout -- . ; git -C /repo clean -fdq -- bandit setup.cfg 2>/dev/null
  v=$(printf '%s\n' "$out" | grep -m1 '^VIOLATION')
  python3 - "${d}meta.json" "$rc" "$v" <<'PY'
import json, sys
p, rc, v = sys.argv[1], int(sys.argv[2]), sys.argv[3]
m = json.load(open(p)); m["applied_to_repo"] = {"cmd": "git -C /repo apply patch.diff && ./check %s --tier quick; git -C /repo checkout -- ." % m["breaks_property"], "exit": rc, "violation_line": v}
json.dump(m, open(p, "w"), indent=1)
PY
  echo "$id exit=$rc $v"
done
test -z "$(git -C /repo status --porcelain)" && echo "/repo clean again"
/venv/bin/python harness/translate.py >/dev/null
