#!/venv/bin/python
"""ONE-OFF: freeze the *published* rule tables of the pinned bandit commit into published/*.json.

The JSON files are committed and are read-only at run time (harness/translate_registry.py turns them
into lean/Bandit/Published.lean on every run).  Re-run this script only when the pinned reference
commit changes on purpose:   /venv/bin/python tools/freeze_published.py
"""
import json, os, subprocess, sys
HERE = os.path.dirname(os.path.dirname(os.path.abspath(__file__)))
sys.path.insert(0, os.path.join(HERE, "harness"))
import benv  # noqa: E402,F401


def main():
    from bandit.core import extension_loader
    mgr = extension_loader.MANAGER
    try:
        commit = subprocess.run(["git", "-C", benv.REPO, "rev-parse", "--short", "HEAD"], capture_output=True, text=True).stdout.strip()
    except OSError:
        commit = "unknown"
    rules, seen = [], {}
    for kind, rows in mgr.blacklist.items():
        for r in rows:
            if id(r) in seen:
                seen[id(r)]["kinds"].append(kind)
                continue
            cwe = r.get("cwe", 0)
            e = {"id": r["id"], "name": r["name"], "level": r.get("level", "MEDIUM"), "cwe": int(getattr(cwe, "id", cwe) or 0),
                 "qualnames": list(r["qualnames"]), "kinds": [kind]}
            seen[id(r)] = e
            rules.append(e)
    plugins = [{"id": p.plugin._test_id, "name": p.name} for p in mgr.plugins]
    os.makedirs(os.path.join(HERE, "published"), exist_ok=True)
    with open(os.path.join(HERE, "published", "blacklist.json"), "w") as f:
        json.dump({"source_commit": commit, "rules": rules}, f, indent=1)
    with open(os.path.join(HERE, "published", "plugins.json"), "w") as f:
        json.dump({"source_commit": commit, "plugins": sorted(plugins, key=lambda p: p["id"])}, f, indent=1)
    print("frozen", len(rules), "blacklist rules,", sum(len(r["qualnames"]) for r in rules), "qualnames,", len(plugins), "plugins from", commit)


if __name__ == "__main__":
    main()
