#!/usr/bin/env python3
"""Rewrite the generated tables of DESIGN.md §13 from evidence/, known_findings.json, seeded/*/meta.json."""
import glob, json, os, re, subprocess
V = os.path.dirname(os.path.dirname(os.path.abspath(__file__)))
os.chdir(V)
kf = json.load(open("known_findings.json"))
man = json.load(open("MANIFEST.json"))
tech = {c["property_id"]: c for c in man["checks"]}


def esc(s):
    return str(s).replace("|", "\\|").replace("\n", " ")


def status():
    rows = ["| id | theorems (Props.Cxx) | quick run: cases / distinct non-trivial / wall | open findings | headline theorems |", "|---|---|---|---|---|"]
    for i in range(1, 21):
        p = f"C{i:02d}"
        e = json.load(open(f"evidence/{p}.json")); c = e["coverage"]
        names = [t.split(".")[-1] for t in c.get("theorems", [])]
        names = [n for n in names if not re.fullmatch(r"eq_def|eq_\d+", n)]
        neg = [n for n in names if n.startswith("NEG_")]
        part = [n for n in names if n.endswith("_partial")]
        head = [n for n in names if n not in neg and n not in part and not n.startswith("gen_")][:7]
        opn = [f["id"] for f in kf["findings"] if f["property"] == p and f["status"] == "open"]
        rows.append(f"| {p} | {len(names)} ({len(part)} `_partial`, {len(neg)} `NEG_`) | {c.get('evaluations')} / {c.get('distinct_nontrivial')} / {e['wall_s']} s | {', '.join(opn) or '—'} | {', '.join('`%s`' % n for n in head + part + neg)} |")
    return "\n".join(rows)


def fixed():
    log = subprocess.check_output(["git", "-C", "/repo", "log", "--format=%h %s", "a0881df..HEAD"], text=True).strip().splitlines()
    subj = {l.split()[0]: l.split(" ", 1)[1] for l in log}
    rows = ["| commit | property | what failed on the pinned commit |", "|---|---|---|"]
    seen = set()
    for s in kf["fixed"]:
        m = re.match(r"fixed: property=(C\d\d) (\w+) (.*)", s)
        if not m:
            continue
        seen.add(m.group(2))
        rows.append(f"| `{m.group(2)}` | {m.group(1)} | {esc(m.group(3))} |")
    for h, sj in subj.items():
        if h not in seen:
            rows.append(f"| `{h}` | ? | {esc(sj)} |")
    rows.append(f"\n{len(subj)} `fix:` commits on top of a0881df; `git -C /repo log --oneline a0881df..HEAD` lists them.")
    return "\n".join(rows)


def opened():
    rows = ["| id | property | what fails | witness | why not repaired |", "|---|---|---|---|---|"]
    for f in kf["findings"]:
        if f["status"] != "open":
            continue
        w = f.get("witness")
        w = json.dumps(w, ensure_ascii=False) if not isinstance(w, str) else w
        rows.append(f"| {f['id']} | {f['property']} | {esc(f['what'][:420])} | {esc(w[:200])} | {esc((f.get('why_not_fixed') or '')[:300])} |")
    return "\n".join(rows)


def seeded():
    rows = ["| change | file(s) | what it breaks (summary) | caught by | missed at first → strengthening |", "|---|---|---|---|---|"]
    for d in sorted(glob.glob("seeded/*/")):
        m = json.load(open(d + "meta.json"))
        name = os.path.basename(d[:-1])
        a = m.get("applied_to_repo", {})
        how = "`./check %s`" % m["breaks_property"]
        if a:
            v = a.get("violation_line", "")
            how += " exit %s, %s" % (a.get("exit"), "concrete replay" if v and "no-failing-input-found" not in v else ("no-failing-input-found" if v else "NO VIOLATION LINE"))
        rows.append(f"| {name} | {esc(', '.join(os.path.basename(f) for f in m.get('files', [])))} | {esc(m['summary'][:330])}… | {how} | {esc(m.get('strengthening', '')) if m.get('initially_missed') else '—'} |")
    return "\n".join(rows)


s = open("DESIGN.md").read()
for key, fn in (("status", status), ("fixed", fixed), ("open", opened), ("seeded", seeded)):
    s = re.sub(r"(<!-- BEGIN GENERATED %s -->\n).*?(<!-- END GENERATED %s -->)" % (key, key), lambda m: m.group(1) + fn() + "\n" + m.group(2), s, flags=re.S)
open("DESIGN.md", "w").write(s)
print("DESIGN.md tables regenerated")
