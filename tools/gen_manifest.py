#!/usr/bin/env python3
"""Regenerate MANIFEST.json from the per-property entries below (kept here so the manifest stays valid)."""
import json, os
HERE = os.path.dirname(os.path.dirname(os.path.abspath(__file__)))
ALL = [f"C{i:02d}" for i in range(1, 21)]

NOTE_COMMON = ("Trusted: Lean 4.33 kernel; axioms propext/Classical.choice/Quot.sound only (audited per theorem on every run, "
               "no sorry/native_decide/bv_decide/implemented_by); harness/translate.py prints /repo's tables as Lean literals; "
               "harness/astser.py + canonicalisation; CPython ast/tokenize/re/codecs and stdlib serialisers are modelled-or-assumed and only exercised by the correspondence runs.")

CLAIMED = {
 "C01": dict(
  text=("Lean theorems over the hand-written model of bandit's traversal, alias table and blacklist check (lean/Props/C01.lean): any_context_visited "
        "(every node at any depth is visited), call_reported / import_reported (a call/import anywhere whose resolved name matches rule r is reported with r's id, "
        "severity, HIGH confidence on its first line, for arbitrary tables, trees, traversal prefixes), call_silent, spelling_resolves + binds_* (the import spellings), "
        "import_silent_partial + NEG_import_string_prefix (kernel-checked witness of the known string-prefix defect), gen_tables_wellformed (decide +kernel over the tables "
        "regenerated from /repo on every run). The model is tied to /repo on every run by correspondence: every (rule, qualname) x spelling x seeded contexts/argument layouts "
        "(thorough: all 23 contexts x 5 layouts) and near-miss names are scanned by real bandit and by the compiled Lean model and compared as (id, severity, confidence, line, range, col); "
        "the generator's own expectation is the spec oracle. Proof is the right level because the property quantifies over all programs/contexts; correspondence is exhaustive over the finite rule table."),
  technique="Lean 4 proof over hand model + exhaustive-table correspondence (translator for tables)",
  design="DESIGN.md section 7 C01"),
 "C02": dict(
  text=("Lean theorems over the model of the tester's nosec handling and of the comment mini-language (lean/Props/C02.lean): withheld_iff_spec_partial "
        "(for ALL nosec maps, contexts and raw results: a finding is withheld iff a nosec comment on its reported line or line range is bare or names its test — "
        "under the guard that at most one line of that span carries a nosec comment), withheld_only_if_covered, NEG_two_comments (kernel-checked witness of the known "
        "two-comment defect), ignore_nosec_restores (the --ignore-nosec scan equals, event for event, the normal scan with every withheld finding restored unchanged — "
        "by induction over the whole traversal), ignore_nosec_findings, counters_exact, afterMarker_isSome_iff (which comments are nosec comments), documented_examples / "
        "comma_without_space (decide +kernel against the registry and character classes regenerated from /repo), regex_sources_known (pins the two regex sources the hand "
        "model stands for). Correspondence on every run: ~470 programs (multi-finding statements on 1-5 lines x comment texts x placements) scanned with and without "
        "--ignore-nosec by real bandit and the compiled Lean model (findings + both counters), 1500 random comments through _parse_nosec_comment vs the model, and an "
        "independent spec oracle written from the documented grammar evaluated on the implementation's output."),
  technique="Lean 4 proof (induction over traversal, case analysis on the tester) + differential correspondence",
  design="DESIGN.md section 7 C02"),
 "C05": dict(
  text=("Lean theorems (lean/Props/C05.lean): restrict_is_filter_partial — for every file, nosec map, plugin configuration, blacklist tables and selection, the events "
        "(reported and nosec-withheld findings) of the scan restricted to a set of test IDs are exactly the events of the unrestricted scan whose ID is selected, proved by "
        "induction over the whole traversal from per-check lemmas (plugins never name their own ID: plugins_emit_own_id; the blacklist wrapper over per-ID filtered tables: "
        "blacklist_restrict_visit) under the explicit guard NoMask (no unselected blacklist rule masks a selected one at a node) plus decidable table hypotheses that "
        "gen_tables_selhyp discharges for the tables regenerated from /repo; corollaries restricted_findings and monotone (enabling more checks never hides a finding); "
        "NEG_blacklist_first_match (kernel-checked witness of the known first-match defect on the generated table); gen_call_rules_unambiguous (the guard always holds for calls "
        "with the current table); the _get_filter algebra: b001_alone_is_all_blacklist, b001_with_specific, excluded_never_runs, contradiction_rejected. Correspondence: seeded "
        "programs x seeded include/exclude selections — real bandit restricted vs filter of its own full run (spec) and vs the Lean model (which computes the filter itself); "
        "CLI rejection of contradictory selections."),
  technique="Lean 4 proof (induction over traversal; decide +kernel over generated tables) + differential correspondence",
  design="DESIGN.md section 7 C05"),
 "C12": dict(
  text=("Lean theorems (lean/Props/C12.lean): count_exact (for ANY weights, finding lists, criterion and rank: score // weight = number of findings of that rank, given a "
        "positive weight) with NEG_zero_weight showing why positivity is an obligation and gen_weights_positive discharging it for the RANKING_VALUES regenerated from /repo; "
        "total_counts_exact / totals_are_sums (totals = sums over files); loc_rule — for EVERY byte string the line-of-code predicate of count_locs (strip, BOM, '#') equals the "
        "specification 'first non-blank byte after an optional BOM exists and is not #' (proved through lemmas about bytes.strip); loc_count; counters_exact. The BOM defect of the "
        "pinned commit was repaired in /repo (fix: commit be90e48) and the model follows the repaired code. Correspondence: seeded multi-finding programs with bare/test-specific nosec "
        "comments x 10 byte-level variants (CRLF, lone CR, BOM, BOM+comment, cookies, latin-1, blank/whitespace/form-feed lines, no final newline) — every metrics key per file and "
        "_totals of real bandit against the spec oracle and against the compiled Lean model."),
  technique="Lean 4 proof (arithmetic + list/bytes lemmas) + differential correspondence",
  design="DESIGN.md section 7 C12"),
}

REASON_PENDING = "check not built yet (work in progress; DESIGN.md section 11 gives the build order)"


def main():
    checks = []
    for pid in ALL:
        if pid not in CLAIMED:
            continue
        c = CLAIMED[pid]
        checks.append({
            "property_id": pid,
            "quick_cmd": f"./check {pid} --tier quick",
            "thorough_cmd": f"./check {pid} --tier thorough",
            "evidence_file": f"evidence/{pid}.json",
            "replay_cmd_template": f"./check {pid} --replay {{path}}",
            "engine": "lean4-model+correspondence",
            "level_claimed": {"category": "proof", "text": c["text"], "design_ref": c["design"]},
            "level_note": c.get("note", NOTE_COMMON),
            "technique": c["technique"],
        })
    m = {
        "version": 1,
        "setup_cmd": "./setup.sh",
        "hooks": {"guard": "BANDIT_VERIF",
                  "enable": "none needed: fault injection is done by patching in the harness process (no hook commits in /repo)",
                  "baseline_off_cmd": "cd /repo && /venv/bin/python -m pytest -ra -q -p no:cacheprovider --timeout=900 --continue-on-collection-errors",
                  "source_commits": [], "add_only": True},
        "engines": [{"name": "lean4-model+correspondence", "path": "lean/", "serves_properties": sorted(CLAIMED),
                     "kind_free_text": "Lean 4 model + theorems (lean/), translator (harness/translate.py), correspondence harness (harness/, ./check)"}],
        "checks": checks,
        "notes": "One entry point: ./check Cxx --tier quick|thorough [--replay FILE]; honours VERIF_SEED. Known findings: known_findings.json. See DESIGN.md.",
        "not_applicable": [{"property_id": p, "reason": REASON_PENDING} for p in ALL if p not in CLAIMED],
    }
    with open(os.path.join(HERE, "MANIFEST.json"), "w") as f:
        json.dump(m, f, indent=1)
    print("claimed:", sorted(CLAIMED))


if __name__ == "__main__":
    main()
