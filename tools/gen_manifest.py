#!/usr/bin/env python3
"""Regenerate MANIFEST.json from the per-property entries below (kept here so the manifest stays valid)."""
import json, os
HERE = os.path.dirname(os.path.dirname(os.path.abspath(__file__)))
ALL = [f"C{i:02d}" for i in range(1, 21)]

NOTE_COMMON = ("Trusted: Lean 4.33 kernel; axioms propext/Classical.choice/Quot.sound only (audited per theorem on every run, "
               "no sorry/native_decide/bv_decide/implemented_by); harness/translate.py prints /repo's tables as Lean literals; "
               "harness/astser.py + canonicalisation; CPython ast/tokenize/re/codecs and stdlib serialisers are modelled-or-assumed and only exercised by the correspondence runs.")

CLAIMED = {
 "C01": dict(
  text=("Lean theorems over the hand-written model of bandit's traversal, alias table and blacklist check (lean/Props/C01.lean): any_context_visited "
        "(every node at any depth is visited), call_reported / import_reported (a call/import anywhere whose resolved name matches rule r is reported with r's id, "
        "severity, HIGH confidence on its first line, for arbitrary tables, trees, traversal prefixes), call_silent, spelling_resolves + binds_* (the import spellings), "
        "import_silent_partial + NEG_import_string_prefix (kernel-checked witness of the known string-prefix defect), gen_tables_wellformed (decide +kernel over the tables "
        "regenerated from /repo on every run). The model is tied to /repo on every run by correspondence: every (rule, qualname) x spelling x seeded contexts/argument layouts "
        "(thorough: all 23 contexts x 5 layouts) and near-miss names are scanned by real bandit and by the compiled Lean model and compared as (id, severity, confidence, line, range, col); "
        "the generator's own expectation is the spec oracle. Proof is the right level because the property quantifies over all programs/contexts; correspondence is exhaustive over the finite rule table."),
  technique="Lean 4 proof over hand model + exhaustive-table correspondence (translator for tables)",
  design="DESIGN.md section 7 C01"),
 "C02": dict(
  text=("Lean theorems over the model of the tester's nosec handling and of the comment mini-language (lean/Props/C02.lean): withheld_iff_spec_partial "
        "(for ALL nosec maps, contexts and raw results: a finding is withheld iff a nosec comment on its reported line or line range is bare or names its test — "
        "under the guard that at most one line of that span carries a nosec comment), withheld_only_if_covered, NEG_two_comments (kernel-checked witness of the known "
        "two-comment defect), ignore_nosec_restores (the --ignore-nosec scan equals, event for event, the normal scan with every withheld finding restored unchanged — "
        "by induction over the whole traversal), ignore_nosec_findings, counters_exact, afterMarker_isSome_iff (which comments are nosec comments), documented_examples / "
        "comma_without_space (decide +kernel against the registry and character classes regenerated from /repo), regex_sources_known (pins the two regex sources the hand "
        "model stands for). Correspondence on every run: ~470 programs (multi-finding statements on 1-5 lines x comment texts x placements) scanned with and without "
        "--ignore-nosec by real bandit and the compiled Lean model (findings + both counters), 1500 random comments through _parse_nosec_comment vs the model, and an "
        "independent spec oracle written from the documented grammar evaluated on the implementation's output."
        " NEW: parse_is_grammar / gen_parse_is_grammar — Nosec.parse's result for EVERY comment text equals a declarative reading (Spec.NosecReads: leftmost '#\\s*nosec', the ':?\\s*([^#]+)?#?' tail, tokenisation captures_is_tokenisation, registry look-up; blanket iff nothing known: blanket_iff_nothing_known); lean/Bandit/Spec/NosecGrammar.lean."),
  technique="Lean 4 proof (induction over traversal, case analysis on the tester) + differential correspondence",
  design="DESIGN.md section 7 C02"),
 "C05": dict(
  text=("Lean theorems (lean/Props/C05.lean): restrict_is_filter_partial — for every file, nosec map, plugin configuration, blacklist tables and selection, the events "
        "(reported and nosec-withheld findings) of the scan restricted to a set of test IDs are exactly the events of the unrestricted scan whose ID is selected, proved by "
        "induction over the whole traversal from per-check lemmas (plugins never name their own ID: plugins_emit_own_id; the blacklist wrapper over per-ID filtered tables: "
        "blacklist_restrict_visit) under the explicit guard NoMask (no unselected blacklist rule masks a selected one at a node) plus decidable table hypotheses that "
        "gen_tables_selhyp discharges for the tables regenerated from /repo; corollaries restricted_findings and monotone (enabling more checks never hides a finding); "
        "NEG_blacklist_first_match (kernel-checked witness of the known first-match defect on the generated table); gen_call_rules_unambiguous (the guard always holds for calls "
        "with the current table); the _get_filter algebra: b001_alone_is_all_blacklist, b001_with_specific, excluded_never_runs, contradiction_rejected. Correspondence: seeded "
        "programs x seeded include/exclude selections — real bandit restricted vs filter of its own full run (spec) and vs the Lean model (which computes the filter itself); "
        "CLI rejection of contradictory selections."),
  technique="Lean 4 proof (induction over traversal; decide +kernel over generated tables) + differential correspondence",
  design="DESIGN.md section 7 C05"),
 "C12": dict(
  text=("Lean theorems (lean/Props/C12.lean): count_exact (for ANY weights, finding lists, criterion and rank: score // weight = number of findings of that rank, given a "
        "positive weight) with NEG_zero_weight showing why positivity is an obligation and gen_weights_positive discharging it for the RANKING_VALUES regenerated from /repo; "
        "total_counts_exact / totals_are_sums (totals = sums over files); loc_rule — for EVERY byte string the line-of-code predicate of count_locs (strip, BOM, '#') equals the "
        "specification 'first non-blank byte after an optional BOM exists and is not #' (proved through lemmas about bytes.strip); loc_count; counters_exact. The BOM defect of the "
        "pinned commit was repaired in /repo (fix: commit be90e48) and the model follows the repaired code. Correspondence: seeded multi-finding programs with bare/test-specific nosec "
        "comments x 10 byte-level variants (CRLF, lone CR, BOM, BOM+comment, cookies, latin-1, blank/whitespace/form-feed lines, no final newline) — every metrics key per file and "
        "_totals of real bandit against the spec oracle and against the compiled Lean model."),
  technique="Lean 4 proof (arithmetic + list/bytes lemmas) + differential correspondence",
  design="DESIGN.md section 7 C12"),
 "C07": dict(
  text=("Lean theorems over the hand model of Issue.__eq__/as_dict/from_dict, populate_baseline, filter_results, _compare_baseline_results, _find_candidate_matches and the exit decision "
        "(lean/Props/C07.lean), for arbitrary lists: eq_iff_identity, roundtrip_identity (JSON text layer = explicit hypothesis JsonFaithful), new_identity_reported, withheld_only_if_accounted, "
        "candidates_are_all_occurrences, lines_irrelevant (+pointwise), accounted_findings_withheld, line_moves_silent, baseline_order_irrelevant, self_baseline_empty (exit 0), and the multiplicity "
        "clause at full strength for the code as it is now: fixed_meets_spec / fixed_multiplicity (reported iff count_now > count_baseline). The pinned commit violated that clause "
        "(NEG_duplicate_not_reported, multiplicity_partial describe the old membership reading); it was repaired in /repo by fix: commit 22e0621 and the model's currentVariant follows. gen_* instances tie "
        "match_types and the as_dict/from_dict key tables, regenerated from /repo, to the model. Correspondence on every run: histories scan -> JSON report (real CLI) -> edit -> scan with baseline over ALL "
        "multisets of <=3 findings over 2 files x identities (incl. a non-BMP/HTML-special literal), 3 layouts, thresholds, through BanditManager and through `bandit -b -f {json,txt,screen,html,custom}` "
        "parsed back incl. exit status; each outcome compared with the compiled Lean model and with the multiset spec."),
  technique="Lean 4 proof over hand model (list induction) + exhaustive small-multiset history correspondence + generated field tables",
  design="DESIGN.md section 7 C07"),
 "C14": dict(
  text=("Lean theorems over the model of injection_shell.py / injection_wildcard.py (lean/Props/C14.lean), for every call view whose keyword/argument values evaluate: b602_table, b603_table, "
        "subprocess_partition (a subprocess-family call with >=1 positional argument is exactly one of B602/B603), b604_table, b605_table, b606_table — closed-form decision tables incl. severity grading "
        "and the shell= keyword location selector — b607_fires / b607_silent, and shell_truthiness_numbers_containers / shell_truthiness_constants: has_shell agrees with Python truthiness of the literal "
        "value as _get_literal_value computes it (numbers, list/tuple displays, True/False/None), for arbitrary user configuration lists; gen_defaults_cover_published (decide +kernel over the defaults "
        "regenerated from /repo). The empty tuple/set defect of the pinned commit was repaired (fix: commit 7485772). Correspondence on every run: every configured function (default and a user-supplied "
        "configuration) x 4 import spellings x 19 first-argument shapes x 24 shell= values x single/multi-line layouts (quick: seeded sample ~1100 programs; thorough: ~23000) — real bandit vs the "
        "compiled Lean model on (id, severity, confidence, line, range, col) and vs an independent Python transcription of the property's table (incl. B609 and keyword-line location)."
        " NEW: b609_table (closed form of the wildcard check), full_path_match_is_pattern + full_path_source_known (the B607 matcher is its regex, for every string)."),
  technique="Lean 4 proof (closed-form decision tables) + differential correspondence over the call grammar",
  design="DESIGN.md section 7 C14"),
 "C20": dict(
  text=("Lean theorems over a state-machine model of bandit/cli/baseline.py (initialize() decision table, the two reset+run steps, @contextmanager semantics parametrised by the shape of baseline_setup "
        "that the translator reads off /repo's AST on every run): restores_always / restores_single_fault (repository, branch, tree, temp dirs restored for EVERY outcome of parent checkout, run 1, "
        "current checkout, run 2 — exit n, signal, missing executable, KeyboardInterrupt, other exception, failing checkout — as long as the clean-up checkout can work), restores_partial (any shape), "
        "NEG_missing_bandit_step1 / NEG_interrupt_step2_leaks_tmpdir (kernel-checked witnesses for the pinned shape without try/finally; repaired in /repo by fix: commit c1d6886, after which "
        "active_claim is the full statement), NEG_untracked_file_clobbered (open known finding, every shape), refuses_table + starts_when_allowed, exit_is_second_run, gen_shape_classified. Tie to /repo: "
        "~300 (quick) / ~750 (thorough) real throw-away git repositories (branch and detached HEAD), bandit.cli.baseline.main() in-process with subprocess.check_output and git reset fault-injected in the "
        "harness process, plus real fake-bandit executables, real SIGINT and unpatched runs; HEAD, refs, git status, file hashes, TMPDIR and exit status compared with the Lean model and a spec oracle; "
        "exhaustive over 2 steps x 10 outcome kinds, all failing-checkout combinations and the whole precondition table."),
  technique="Lean 4 proof over hand model (shape generated from source AST) + exhaustive fault-injection correspondence on real git repositories",
  design="DESIGN.md section 7 C20"),
 "C09": dict(
  text=("Lean theorems over the hand-written model of bandit's own formatter logic (lean/Bandit/Format.lean; spec in lean/Bandit/Spec/Format.lean; lean/Props/C09.lean): "
        "html_roundtrip (htmlUnescape (htmlEscape s) = s for ALL strings, htmlEscape = Python's five sequential replaces) and html_no_markup (no < > \" ' survives, every & starts one of the five entities); "
        "get_code_is_numbered_window + sarif_parse_render (SARIF parse_code undoes the '%i %s' rendering for any lines) + sarif_region_total (the SARIF location is produced for EVERY finding, snippet looked up safely: /repo fix bd86973) + sarif_index_in_range_partial (snippet = source line at startLine, "
        "under the guard lmin <= range start) + FIXED_sarif_negative_index (the former IndexError / wrong-line witnesses now yield a region without snippet); one_record_per_finding (all six formats, grouped order is a permutation), "
        "six_fields_present (json,yaml,csv,xml,html: id,file,line,severity,confidence,message carried unaltered), six_fields_present_sarif_partial + NEG_sarif_line_is_range_start, six_fields_present_custom, formats_agree; "
        "grouping_stable_sorted + grouping_contiguous (JSON/YAML grouping = stable sort by file name / test name, code-point order); skipped_listed (json,yaml,sarif,html); "
        "source_text_escaped_partial (no source-derived leaf is written raw; guard: not HTML, or HTML after the proposed fix) + html_code_escaped + NEG_html_text_raw; "
        "custom_template_total (for every template of literal text, doubled braces and plain {tag} fields the report is exactly the template's meaning, one line per finding: parse -> re-compose -> str.format round trip). "
        "The stdlib serialisers are NOT modelled (leaves tagged viaSerializer are assumed to decode to the value handed over) - that assumption and the model itself are tied to /repo on every run by correspondence: "
        "generated source trees (B105/B101 messages quoting literals from a metacharacter alphabet incl. markup, quotes, separators, CR/LF/TAB, ]]>, {}, %, NBSP, non-BMP, combining marks, bidi; hostile file names; "
        "multi-line ranges reported on later lines; file-level B613; skipped files; bandit's examples/ corpus) are scanned by real bandit, every format is produced through BanditManager.output_results x context lines "
        "{0,1,3,10} x thresholds x -a file|vuln x user templates, parsed back with independent parsers (json, yaml.safe_load, csv strict, xml.etree, html.parser, SARIF shape check) and compared with the manager's reported set "
        "(hence with each other), with the ideally escaped HTML document (parse-equality oracle), and with the compiled Lean model (abstract Doc per format, concrete HTML blocks built from the templates regenerated from html.py, "
        "SARIF regions, get_code excerpts, custom expansion, html.escape on random strings). Partial: runtime encoders are trusted+tested, not proved; four known findings (HTML unescaped text/path/skipped - fix proposed; "
        "SARIF line = range start; SARIF negative snippet index; XML control characters) are reported as KNOWN-FINDING in narrow regions."),
  technique="Lean 4 proof over hand model of the formatters' own logic + parse-back correspondence through output_results (translator for the HTML templates)",
  design="DESIGN.md section 7 C09"),
 "C04": dict(
  text=("Lean theorems over the hand-written model of BanditManager.run_tests/_parse_file/_execute_ast_visitor and the tester's try/except (lean/Bandit/Manager.lean: per-file steps "
        "open/read/tokenise/parse/visit each with an arbitrary exception value, both try/except ladders verbatim incl. the stdin rename, list.remove, skipped.append, commit after a completed visit, "
        "scores/metrics bookkeeping), proved for ALL file lists and ALL outcome assignments by induction (lean/Props/C04.lean): report_total (no exception leaves the run, aggregate reached), "
        "accounting / accounting_plain (scanned ++ skipped is a permutation of the discovered files), accounted_once + scanned_not_skipped, skipped_has_reason, isolation (every position), "
        "isolation_outcomes (every outcome of the other files), healthy_findings, no_findings_from_skipped, scores_aligned, interrupt_exits_2, ladder-arm facts, "
        "report_produced_partial + NEG_stdin_excerpt_not_utf8 (kernel-checked witness of the known stdin-excerpt defect). PARTIAL: the theorems assume every failure is an Exception subclass "
        "(hypothesis Spec.ordinary); that CPython behaves so on arbitrary bytes / nesting / I/O faults (no segfault, no C-stack overflow) is explored, not proved. Tie to /repo on every run: exhaustive fault "
        "enumeration (N in {2,3,4} healthy files x every position x 43 fault kinds at open/read/readline/tokenise/parse/check/visitor, x nosec/debug variants; faults injected by filesystem changes after "
        "discovery or by patching builtins.open / one plugin / the visitor in the harness process), stdin scenarios, and a seeded byte-level fuzz stream (in-process batches; deep-nesting and huge inputs in a "
        "subprocess so that an interpreter crash is observed); each run is compared with the compiled Lean model (files_list, skipped names+reasons, per-file findings, scores, metrics blocks, JSON errors) "
        "and with the spec oracle evaluated on the implementation (partition via the Lean Spec predicates, healthy files' findings identical to scanning them alone, report produced)."),
  technique="Lean 4 proof over hand model (induction over file lists / outcome assignments) + exhaustive fault-injection correspondence + seeded byte fuzz",
  design="DESIGN.md section 7 C04"),
 "C13": dict(
  text=("Lean theorems over the hand-written model of bandit's configuration plumbing (lean/Bandit/ConfigLoad.lean: BanditConfig.__init__ with validate-before-isinstance and Python's `in` per value type, "
        "get_option, legacy profile conversion, parse_ini_file result + _log_option_source merge, _get_profile, -t/-s union, validate_profile, _get_filter, _load_tests settings lookup, generator), "
        "lean/Props/C13.lean: carrier_equiv (for ALL selections of canonically spelled IDs, all worlds with ordinary plugin keys, all targets: the YAML document, the TOML [tool.bandit] document, the INI section and the -t/-s flags "
        "each lead to Spec.selectionOutcome, hence to the same outcome), selection_merges (include = config tests U flag tests, exclude likewise), settings_local / settings_replace / settings_local_table / no_block_means_defaults "
        "(a block for key k replaces k's default wholesale and changes no other key, for arbitrary configs), generator_neutral + generator_neutral_run + gen_defaults_plain (decide +kernel over the tables regenerated from /repo: "
        "the generator's document gives every plugin its default and an empty selection; the whole run equals the run without -c), ini_fills_defaults / precedence_cli_tests / precedence_cli_skips / precedence_rules "
        "(INI = the command line that spells the same options; a given CLI value wins; the 'CLI value equal to default loses to INI' corner), reject_table (unreadable | unparsable incl. non-UTF-8 | non-mapping => diagnostic + exit 2 for EVERY "
        "parser result; full strength since the /repo fixes d27fc84 and 259b80f, which the model follows), reject_unknown_profile, reject_contradictory, and former_witnesses_rejected / ini_level_as_cli: kernel-checked regression instances of the three repaired defects "
        "(empty/scalar/'profiles'-string config, TOML tool not a table, undecodable TOML, INI level) which the harness replays on the real code; the three findings are recorded as fixed in known_findings.json. "
        "Tie to /repo on every run: Gen.Defaults/Registry/Constants regenerated; ~920 (quick) / ~6000 (thorough) runs of bandit.cli.main.main() and bandit-config-generator: one abstract "
        "config through YAML/TOML/INI(--ini and auto-discovered)/CLI/generator/legacy-profile carriers and split over carriers, exclude patterns on a tree, per-plugin blocks (tmp_dirs, shell lists, key-size thresholds, "
        "check_typed_exception, assert skips), malformed stream (shape tables + seeded non-mappings; missing/dir/unreadable via patched open), each compared with the compiled Lean model (outcome kind, crash class, scanned files, findings) "
        "and judged by spec oracles on the implementation's own output (pairwise carrier equality, locality, generator neutrality, exit 2 + diagnostic + no traceback). Proof is the right level because the property quantifies over all "
        "configurations; the finite shape tables are enumerated exhaustively."),
  technique="Lean 4 proof over hand model of config/CLI plumbing + carrier-equivalence correspondence through the real CLI (translator for defaults/registry)",
  design="DESIGN.md section 7 C13"),
 "C11": dict(
  text=("Lean theorems over a hand model of discover_files/_get_files_from_dir/_is_file_included on an explicit filesystem value (tree of dirs, files, symlinked dirs + cwd; os.path.isdir/join and "
        "os.walk(followlinks=False) as functions of it) and a transcription of CPython fnmatch (lean/Props/C11.lean): partition / walk_partition / partition_exhaustive / overlap_only_from_explicit_target "
        "(walked = files + excluded, disjoint, exhaustive, duplicate-free, for ALL trees, cwds, targets, configs, -x strings), no_descent_without_r, glob facts ('*' matches all, a literal matches itself, "
        "'*.py' iff suffix, name-reading = path-reading for '*.ext' includes) in full; predicate_spec_partial, walked_scanned_iff_spec_partial, explicit_any_extension, explicit_excluded are PARTIAL under the "
        "guard 'no -x entry names an existing directory relative to cwd', with the kernel-checked witness NEG_default_exclude_in_cwd (bandit -r . at a repo root scans ./.git/**.py; open known finding "
        "C11-exclude-dir-in-cwd, narrow region = paths lost by the isdir => 'p/*' rewrite). Tie to /repo on every run: Lean fnmatch vs CPython fnmatch on all patterns of length <= 4 (thorough 5) over the "
        "metacharacter alphabet + class/range/negation/unclosed/newline patterns; real temporary trees (VCS/cache/hidden/egg dirs, extension mix, symlinks, dangling links) x cwd in {root,parent,sibling,subdir} x 9 "
        "target spellings x -x strings x YAML exclude_dirs/include, real BanditManager.discover_files and full CLI runs vs the compiled Lean model and vs an independent spec oracle."),
  technique="Lean 4 proof over hand model + correspondence on real temp trees (fnmatch transcription checked against CPython)",
  design="DESIGN.md section 7 C11"),
 "C16": dict(
  text=("Lean theorems (lean/Props/C16.lean): b103_mode_table — for EVERY natural number mode the bit test of _stat_is_dangerous equals the documented rule (group/world write or execute; HIGH iff "
        "world-writable), proved by reduction to the low six bits + kernel enumeration, and b103_all_4096 (all twelve-bit modes by decide +kernel); re_candidates_source_known (the hand matcher stands for "
        "exactly the RE_CANDIDATES source regenerated from /repo) and candidate_examples; b104_iff, b108_iff (configured or default directories), docstring_exempt / string_dispatched (a string whose parent is "
        "an expression statement is never offered to a check; otherwise it is checked with its parent's line range), b105_assign, b106_fires / b106_silent (first matching keyword with a string literal), "
        "gen_tmp_dirs_cover_published. The positional-only misattribution of B107 in the pinned commit was repaired (fix: commit 2542a3e) and the model follows. Correspondence on every run: 37 identifiers "
        "(matching / near-matching / case variants) x string literals x the five positions (+ positional-only parameters, non-literal values, docstrings), chmod modes (quick: boundary set + 256 seeded; thorough: "
        "all 4096) in three spellings, a user temp-dir configuration, the quoted literal in the message, and 4000 (thorough 20000) generated identifiers through RE_CANDIDATES vs the documented regex vs the Lean matcher."
        " NEW: candidate_is_pattern — for EVERY string, isCandidate holds iff the case-folded string contains a word of the documented language (pas+wo?r?d|pass(phrase)?|pwd|token|secrete?) delimited by the string ends or '_' (Spec.CandidateSpec); word_rests_are_language, documented_words_are_candidates, not_candidate_without_stem."),
  technique="Lean 4 proof (bit-level table for all naturals, decision lemmas) + differential correspondence",
  design="DESIGN.md section 7 C16"),
 "C03": dict(
  text=("Lean theorems over a hand-written model of bandit/cli/main.py main() (argparse post-processing, the --severity-level/--confidence-level if-chains, "
        "the INI level/confidence merge through _log_option_source, the ladder of error exits, RANKING[args.severity - 1], the exit decision), Issue.filter and "
        "BanditManager.filter_results/results_count (lean/Bandit/Cli.lean), instantiated with tables regenerated from /repo on every run (RANKING, both if-chains, "
        "choices=, the defaults of -l/-i, the index offset, formatter names, baseline-capable formatters, whether the INI value is int()-converted): "
        "exit_one_iff / exit_one_iff_exists / exit_zero_otherwise (status 1 iff a finding meets both thresholds and no --exit-zero, else 0), exit_zero_flag + "
        "exit_zero_never_one (for every table value, invocation and world), reported_is_filter (report = filter (sev >= tS and conf >= tC) of the unfiltered findings, order and "
        "multiplicity kept), reported_subset_unfiltered (arbitrary tables), spelling_equiv + spelling_equiv_main (k flags and the name all/low/medium/high give the same outcome "
        "of main() for every other option and world), filter_monotone, error_exit_is_two / parse_error_exit_is_two / template_error_exit_is_two / exit_two_only_errors / "
        "error_exit_table (every listed usage/configuration error ends in a diagnostic + exit 2, never a traceback, and exit 2 occurs only for those), NEG_count_five + "
        "count_ge_four_traceback (observation: -llll => IndexError; outside the spellings the property lists), NEG_ini_level + ini_level_always_traceback (witness and full region of "
        "the defect fixed by /repo da9ae97: a raw INI level/confidence string => TypeError traceback; conditional on the generated flag iniAsInt = false, vacuous now) and "
        "FIXED_ini_level_is_count (with the conversion in place an INI level k behaves like k-1 flags; conditional on iniAsInt = true). "
        "Tie to /repo on every run: bandit.cli.main.main() is driven in-process on generated programs (8 natural (severity, confidence) pairs; all 16 pairs incl. UNDEFINED and HIGH/LOW "
        "by appending findings behind BanditManager.run_tests) exhaustively over 4x4 thresholds x count/name spellings x 10 report formats (json yaml csv xml html sarif txt screen custom, "
        "custom with default template) x --exit-zero x {-,-q,-v}; every report is parsed back and compared as a multiset of (file, id, severity, confidence, line) with a spec filter "
        "written from the property text over BanditManager.results, exit status compared with the spec and with the compiled Lean model, any non-SystemExit exception is a traceback; "
        "37 error invocations x decorations must exit 2 with an ERROR/WARNING/usage line. Proof is the right level: the statement is a universally quantified relation between the "
        "finding list, the option vector and (report, status); the option space is finite and is also enumerated against the real code."),
  technique="Lean 4 proof over hand model + generated tables + exhaustive option-space correspondence through main()",
  design="DESIGN.md section 7 C03"),
 "C18": dict(
  text=("Lean theorems (lean/Props/C18.lean) over the registry tables regenerated on every run from /repo (entry points of the current setup.cfg as loaded by "
        "extension_loader, Issue(...) sites and @test_id decorators from the plugin source ASTs, doc/source listings) and over the frozen published tables (published/*.json): "
        "by decide +kernel over the whole tables — ids_wellformed, ids_unique, names_unique, names_are_not_ids, nosec_name_id_interchangeable (the nosec comment parser yields the same ID "
        "for '# nosec <name>' and '# nosec <ID>' for every entry), profile_name_id_interchangeable, ranks_valid, cwe_set, doc_url_model_agrees, doc_page_exists_partial + NEG_doc_page_missing (B508/B509), "
        "blacklist_doc_page_exists, declared_iff_present, published_still_enforced, published_call/import_first_match, tables_coherent, cli_select_by_id + NEG_cli_select_by_name, "
        "NEG_get_url_mutates_names; and for ARBITRARY registries — unique_implies_bijection, unique_implies_interchangeable, unique_implies_resolve_injective, unique_implies_profile_interchangeable, "
        "cli_select_by_name_partial (a token that is not an ID selects/skips nothing), published_call_reported (C01's call_reported instantiated: a published qualified name called anywhere in any program "
        "is reported with the published ID and at least the published severity). Tie to /repo on every run: the running registry is compared with the generated instance; every Spec clause is evaluated on the "
        "running registry twice (Python oracle using bandit's own lookups vs the Lean definitions through the driver); one trigger program per registered ID, one per published (id, qualified name, node kind), "
        "and every entry x {by ID, by name} x {nosec, legacy profile, -t, -s} run through real bandit and compared with the Lean models (resolve, Nosec.parse, convertNames, getFilter, docUrl, get_url state). "
        "Proof is the right level because the domain is finite and the kernel enumerates it completely; the generic theorems say what the table facts imply for any registry."),
  technique="Lean 4: decide +kernel over regenerated whole tables + generic lemmas; exhaustive correspondence on the finite registry",
  design="DESIGN.md section 7 C18"),
 "C10": dict(
  text=("Lean theorems (lean/Props/C10.lean) over the model of linerange / the tester's location defaults / the location selectors every check uses (context default, the node's own line, "
        "the line of a keyword's value) and Issue.get_code: line_in_range — for EVERY check that locates by selector, every positioned node with a well-formed span (CPython fact "
        "Node.spanOK, asserted on every serialised tree), every nosec map: a reported or withheld finding's line is a line of its range and the range is exactly the node's span "
        "(proved through kwLine_desc / resolved_line_source: a keyword line is the first line of a node below the call); range_contiguous_ascending, range_is_construct_span, "
        "str_line_in_parent_range (string findings carry their parent's range), excerpt_contains_line (lmin <= line < lmax for every -n incl. 0 and negatives), excerpt_bound "
        "(at most len(range)+max(n,1)-1 lines, by induction over the read loop); the verbatim/numbered clause is Props.C09.get_code_is_numbered_window. Checks decide on the position-ERASED "
        "visit with a blanked location context (Env.forCheck / Env.blind), so decisions cannot depend on line numbers in the model. EQUIVARIANCE (Props.C10.equivariant, "
        "equivariant_findings, insert_shifts, insert_finding, insert_above_unchanged, insert_below_shifts, insert_inside_grows, nosecMoved_exists; lemmas in lean/Bandit/Proofs/Renum.lean): for ANY "
        "strictly monotone renumbering of the lines (inserting k lines before line L is one) the traversal yields the same events — findings, nosec-withheld findings, skipped tests, crashes, same order, "
        "test, severity, confidence, column — with every line moved along the renumbering and every range mapped as the interval between its moved end points; unbounded in tree, comments and check "
        "list. Hypotheses: TreeWF (two CPython facts asserted by astser.check_wf on every tree), CheckCovered per check (position-blind or PosInvariant, locating relative to the node: proved for EVERY "
        "check of the real test set incl. the position-using B608/B703 — all_checks_covered, equivariant_bandit; lean/Bandit/Proofs/RelLoc.lean, PosInv.lean); the file-level B613 has its own "
        "insertion theorem b613_insert_shifts, NosecMoved (inserted lines carry no nosec "
        "comment), FallbackOK (the absolute fallback range [0,1] of position-less nodes: nothing inserted before line 2, or no check registered for such nodes). The shift clause is additionally "
        "decided by correspondence: every safe insertion point (between statements and inside bracketed expressions) x blank/whitespace/comment text x k in {1,3} on programs "
        "with multi-line constructs — real bandit vs the expected interval-shift image and vs the compiled Lean model; plus per-finding invariants and excerpts for -n in {0,1,2,3,5,10} "
        "against an independent reading of the file."),
  technique="Lean 4 proof (equivariance under monotone line renumbering, location selectors + span well-formedness, excerpt arithmetic) + insertion-shift correspondence",
  design="DESIGN.md section 7 C10"),
 "C15": dict(
  text=("Lean theorems (lean/Props/C15.lean) relating the hand-written models of B113, B324, B501-B505, B507-B509 (lean/Bandit/Plugins/Crypto.lean: evaluation order and every Python exception "
        "included) to decision tables written from the property text (lean/Bandit/Spec/Crypto.lean), for ARBITRARY in-module tables, environments, call nodes and settings: one *_table theorem per "
        "check plus *_iff forms (b501, b504, b507, b508, b509), *_secure_variant_silent per check, b505_keyword_size / positional_size / ec_curve (a literal size is graded against any integer "
        "thresholds), b505_grading_antitone (any thresholds) and b505_antitone_partial (call level, 0 < k1 <= k2) with NEG_keysize_zero (0 falls through the or-chain: observation), "
        "b505_classify_total (no raise under well-formed thresholds), b113_documented_partial + NEG_timeout_opaque (timeout=f() is graded as missing: observation), b509_table (full; the "
        "keyword-keys defect of the pinned commit was repaired by /repo fix 60708c5, NEG_b509_positional_only documents it), REG_* no-crash regressions for the repaired crashes (/repo fixes 6e22cbb, "
        "94606d1); instance theorems by decide +kernel over the tables/defaults regenerated from /repo on every run (harness/translate_c15.py extracts WEAK_HASHES, WEAK_CRYPT_HASHES, HTTP_VERBS/HTTPX_ATTRS, "
        "func_key_type, arg_position, curve_key_sizes from the plugin source ASTs): thresholds coherent and >= published, protocol list and name tables >= published, key tables well-formed. "
        "Correspondence on every run: ~4300 (quick) / ~21000 (thorough) programs — every keyed function x import spellings x positional/keyword placement x sizes at and across the thresholds x every "
        "curve x non-literal and wrongly-typed values x custom threshold / protocol configurations and malformed settings — real bandit vs the compiled Lean model as (id, severity, confidence, line, "
        "range, col) and crashes, plus a Python spec oracle written from the property text."),
  technique="Lean 4 proof (case analysis on Except-monad models, omega, decide +kernel over generated tables) + differential correspondence + spec oracle",
  design="DESIGN.md section 7 C15"),
 "C19": dict(
  text=("Lean theorems (lean/Props/C19.lean): downstream_channel_independent — the per-file scan is a function of exactly (AST, comment map, decoded lines): the channel is not an input of the model "
        "at all; bidi_complete (for ANY table and text: the scan finds a listed character iff one occurs on some line — comment, string, first or last line alike), bidi_position_valid (reported "
        "line = first line containing a listed character, the character stands at the reported 1-based column, no earlier line contains one), b613_iff, b613_total, gen_bidi_covers_published "
        "(decide over the table regenerated from /repo); the split of the decoded text into the lines B613 iterates is modelled (lean/Bandit/Lines.lean `uniLines` = the universal-newline "
        "decoder of a text-mode file, executed by the driver on the decoded text) and proved newline-style independent: lines_newline_style_independent / b613_newline_style_independent (LF, CRLF and lone-CR "
        "renderings of a text have the same lines, hence the same B613 line and column), lines_partition_text (lines concatenate to the translated text, no line holds a CR, line i starts after the i-th "
        "line end), bidi_anywhere_in_text_reported, no_bidi_no_report; tied by comparing `uniLines` with io.TextIOWrapper.readlines() on generated texts mixing every line-end style with form feed / "
        "U+2028-class characters. PARTIAL by nature: that CPython produces the same text/AST for LF vs CRLF, BOM vs none, transcoded files with a cookie, file vs stdin is runtime "
        "behaviour — explored on every run: seeded programs x {file, stdin} x {LF, CRLF} x {BOM, none} x {utf-8, utf-8 cookie, latin-1, cp1252} through the real CLI must yield identical findings and "
        "locations; every bidi control character at 7 kinds of position x {file, stdin} x {LF, CRLF} must be B613 HIGH/MEDIUM on its line (and the Lean model must agree on line and column); files "
        "their declared encoding cannot decode must be skipped with a reason without disturbing other files. The stdin defect of the pinned commit (B613 re-opened '<stdin>' by name) was repaired "
        "in /repo (fix: commit 753942f)."),
  technique="Lean 4 proof (scan completeness/position by list induction; channel independence by construction) + cross-channel correspondence through the real CLI",
  design="DESIGN.md section 7 C19"),
 "C17": dict(
  text=("Lean theorems (lean/Props/C17.lean, 55) over hand-written models of the 17 checks (lean/Bandit/Plugins/Inject.lean, DjangoXss.lean, Misc.lean), each related to a decision table "
        "written from the property text / plugin docs (lean/Bandit/Spec/Inject.lean): sql_matcher_is_pattern (for EVERY string the hand-written SIMPLE_SQL_RE matcher succeeds iff a suffix of the "
        "case-folded string has one of the four verb shapes; regex source pinned by sql_regex_source_known, character classes regenerated from the interpreter), b608_rule (confidence rule for "
        "every construction) + b608_single_operation / b608_method / b608_fstring (the three shapes) + b608_plain_literal_silent; b610_table, b611_table, b701_table + autoescape_direct_keyword "
        "(breadth-first ast.walk: the call's own keyword decides), b702_table, b704_table_default, b506_table_partial / b614_table_partial (guard: module imported under its bare name) with "
        "NEG_b506_from_import / NEG_b614_from_import (kernel-checked witnesses of the known from-import defect), b202_table with NEG_b202_members_attr_call, b201/b612/b601/b102/b101 tables, "
        "handler_table (B110/B112 x check_typed_exception); import_gates_are_set_membership + visited_imports_accumulate + import_statements_commute (every check of every selected test set decides the same for two import lists with the same members: order and repetition of import statements cannot change a decision); B703: b703_literal_silent, b703_param_reported, b703_unassigned_reported, b703_literal_assignment_silent, b703_fuel_monotone (more "
        "recursion budget never changes an answer), b703_terminates_partial (until+1 activations suffice when assignments do not hand down later lines) and NEG_b703_diverges (for EVERY fuel the "
        "two-line self-assignment has no answer: CPython RecursionError), NEG_b703_crashes / NEG_b611_no_sql (C06 crash witnesses); one *_silent theorem per safe variant; decide +kernel end-to-end "
        "examples through the whole per-file pipeline. Tie to /repo on every run: literal tables inside the plugin functions and the IGNORECASE/\\s character facts are regenerated "
        "(harness/translate_local.py), ~6000 generated programs (statement grammar per check: import spellings x positional/keyword x literal/name/call/nested format x SQL verbs x +,%,.format,"
        ".replace,f-string,multi-line x wrappers x handler forms x per-check configuration incl. assert skips globs x file paths; 2400 seeded shape/data-flow fuzz programs) are scanned by real "
        "bandit and by the compiled Lean model and compared as (id,sev,conf,line,range,col)+internal errors over the 17 IDs, 4000 strings through SIMPLE_SQL_RE vs the matcher, and a spec oracle "
        "written from the property text judges the implementation's output (thorough: 30000 programs + every parsable file of /repo). Partial: B506/B614/B202/B703 as named above; CPython's "
        "recursion limit itself is not modelled (divergence is); what counts as 'SQL-looking' across several literals and keyword-argument wrappers are left open by the oracle."),
  technique="Lean 4 proof (decision tables, induction over the SQL matcher and the B703 recursion, decide +kernel examples) + differential correspondence with spec oracle",
  design="DESIGN.md section 7 C17"),
 "C06": dict(
  text=("Lean theorems (lean/Props/C06.lean; a check 'raises' iff its model returns .error). HEADLINE scan_no_crash: for every tree with the shape CPython gives a parsed module (TreeShapeOK, a "
        "decidable predicate evaluated by the driver on every real AST the harness serialises) and settings as the generator emits them (configOK, decided for the generated defaults), for every "
        "profile filter, blacklist table, nosec map and file text, crashesOf (scanFile (testSet ...) inp) = [] — all 41 plugin checks and the blacklist wrapper, B703's recursion budget shown "
        "sufficient (b703_total, b703_only_recursion_error); per-check bNNN_total theorems (lean/Bandit/Proofs/Total2.lean). CPython's recursion limit is outside the model: known finding "
        "C06-recursion-limit (B608 on ~450+ operand concatenations, B703 on ~950+ alias chains). Further: evaluators_total — _get_literal_value, call_args, call_keywords, get_call_arg_at_position, "
        "get_call_arg_value, check_call_arg_value return on EVERY node (proved by induction over the nested tree type via Node.rec; set displays with unhashable elements included since /repo fix "
        "94606d1), no_crash_event (a check whose decision returns on a positioned node yields no internal-error event: the tester's own defaults cannot fail there), shell_checks_total, "
        "blacklist_total (__import__() / importlib.import_module() without a name included, /repo fix 24ed4b7), b106_total (f(**\"x\") included, fix c28be0a), b103_total, kw_checks_total, "
        "simple_checks_total, visited_has_parent (every visited node has a parent, by induction over the traversal); per-check totality / no-raise results of the other families are in Props.C15 "
        "(b505_classify_total, REG_* no-crash) and Props.C17 (b611_table 'never raises', NEG_b703_crashes for the pinned commit, b703_terminates_partial). PARTIAL: the model's knowledge of which Python "
        "operations raise is hand-written. It is closed empirically on every run by the crash monitor (+ grammar-directed programs over every statement / target / expression kind with FULL model "
        "correspondence, harness/pygen.py): every callee spelling of bandit's examples + every blacklist qualified name + the names the "
        "plugins key on (~400 callees) x an argument-shape grammar (0-3 positionals from 40 shapes incl. starred / unhashable set displays / walrus / lambdas, keywords from 31 keyed names, **dict / "
        "**\"x\" / **f()) + 56 statement shapes (defaults, handlers, string positions, SQL constructions, mark_safe data flows incl. the former non-terminating one) — a logged internal error, an escaped "
        "exception or a file demoted to skipped is a violation; the full Lean model (all 41 plugins + blacklist) is compared with real bandit on bandit's own examples (thorough: every .py of /repo). "
        "Twelve crash defects of the pinned commit found this way were repaired in /repo (see known_findings.json 'fixed')."),
  technique="Lean 4 proof (totality by nested induction) + crash-monitor exploration + full-model correspondence",
  design="DESIGN.md section 7 C06"),
 "C08": dict(
  text=("Lean theorems (lean/Props/C08.lean): coscan_invariant — for ANY two file lists containing a file (other files, orders, positions, outcomes of the other files all arbitrary) the findings "
        "reported for it are the same, both equal to scanning it alone (derived from Props.C04.isolation); report_order_canonical (grouping is a stable sort of the findings: Props.C09); a state-machine "
        "model of the process-wide state shared by scanner objects (lean/Bandit/Process.lean: settings and blacklist data live on shared function objects, test lists per manager): sequence_partial "
        "(if the most recent construction before a run wrote that manager's own configuration, the run equals a fresh-process run, whatever was constructed or run earlier), construct_then_run, "
        "runs_do_not_leak, exec_append, NEG_later_construct_leaks (kernel-checked witness of the open known finding C08-shared-plugin-config). PARTIAL by nature: hash-seed independence, "
        "directory enumeration order and the absence of memory addresses cannot be stated about a pure model; they are explored on every run: per-file findings incl. message texts alone / together "
        "/ shuffled / in supersets; histories of construct/run operations over managers with equal or different settings, each run compared with a fresh run and with the Lean model's prediction of "
        "which construction's settings it reads (driver op process_exec); bandit's examples through the real CLI in subprocesses under several PYTHONHASHSEED values x machine-readable formats — "
        "byte-identical apart from the timestamp and free of 'object at 0x…'; files created in different directory-entry orders. The B202 memory-address defect of the pinned commit was repaired "
        "(/repo fix 9aac79b), get_url's registry mutation too (40b2287)."),
  technique="Lean 4 proof (co-scan invariance, process-state machine) + determinism exploration (hash seeds, orders, histories)",
  design="DESIGN.md section 7 C08"),
}

REASON_PENDING = "check not built yet (work in progress; DESIGN.md section 11 gives the build order)"


def main():
    checks = []
    for pid in ALL:
        if pid not in CLAIMED:
            continue
        c = CLAIMED[pid]
        checks.append({
            "property_id": pid,
            "quick_cmd": f"./check {pid} --tier quick",
            "thorough_cmd": f"./check {pid} --tier thorough",
            "evidence_file": f"evidence/{pid}.json",
            "replay_cmd_template": f"./check {pid} --replay {{path}}",
            "engine": "lean4-model+correspondence",
            "level_claimed": {"category": "proof", "text": c["text"], "design_ref": c["design"]},
            "level_note": c.get("note", NOTE_COMMON),
            "technique": c["technique"],
        })
    m = {
        "version": 1,
        "setup_cmd": "./setup.sh",
        "hooks": {"guard": "BANDIT_VERIF",
                  "enable": "none needed: fault injection is done by patching in the harness process (no hook commits in /repo)",
                  "baseline_off_cmd": "cd /repo && /venv/bin/python -m pytest -ra -q -p no:cacheprovider --timeout=900 --continue-on-collection-errors",
                  "source_commits": [], "add_only": True},
        "engines": [{"name": "lean4-model+correspondence", "path": "lean/", "serves_properties": sorted(CLAIMED),
                     "kind_free_text": "Lean 4 model + theorems (lean/), translator (harness/translate.py), correspondence harness (harness/, ./check)"}],
        "checks": checks,
        "notes": "One entry point: ./check Cxx --tier quick|thorough [--replay FILE]; honours VERIF_SEED. Known findings: known_findings.json. See DESIGN.md.",
        "not_applicable": [{"property_id": p, "reason": REASON_PENDING} for p in ALL if p not in CLAIMED],
    }
    with open(os.path.join(HERE, "MANIFEST.json"), "w") as f:
        json.dump(m, f, indent=1)
    print("claimed:", sorted(CLAIMED))


if __name__ == "__main__":
    main()


# the /repo commit the model and the harness were last validated against (harness/diffhints.py offers the literals of later changes to the generators)
import subprocess as _sp, os as _os
_here = _os.path.dirname(_os.path.dirname(_os.path.abspath(__file__)))
try:
    _h = _sp.check_output(["git", "-C", "/repo", "rev-parse", "HEAD"], text=True).strip()
    _dirty = _sp.check_output(["git", "-C", "/repo", "status", "--porcelain", "--", "bandit"], text=True).strip()
    if not _dirty:
        open(_os.path.join(_here, "published", "model_commit.txt"), "w").write(_h + "\n")
except Exception:
    pass
