#!/usr/bin/env python3
"""Merge an agent's private copy back: copies new/changed non-shared files, merges known_findings.json by id,
reports shared files that need manual attention."""
import json, os, shutil, subprocess, sys
src = sys.argv[1].rstrip("/")
dst = "/verif"
SHARED = {"lean/Driver.lean", "known_findings.json", "tools/gen_manifest.py", "harness/translate.py", "harness/translate_local.py",
          "lean/Bandit/Checks.lean", "MANIFEST.json", "DESIGN.md", "harness/common.py", "harness/runner.py", "lean/lakefile.toml"}
out = subprocess.check_output(["git", "-C", src, "status", "--porcelain", "-uall"], text=True)
manual = []
for line in out.splitlines():
    st, path = line[:2], line[3:]
    if path.startswith("evidence/") or path.startswith("replays/") or "__pycache__" in path or path.startswith("lean/.lake"):
        continue
    if path in SHARED:
        manual.append((st, path))
        continue
    if "D" in st:
        print("deleted in agent copy (ignored):", path)
        continue
    os.makedirs(os.path.dirname(os.path.join(dst, path)) or ".", exist_ok=True)
    if os.path.exists(os.path.join(dst, path)) and st.strip() == "M":
        # changed tracked file: only copy if /verif's version equals the agent's base version
        base = subprocess.run(["git", "-C", src, "show", "HEAD:" + path], capture_output=True).stdout
        cur = open(os.path.join(dst, path), "rb").read()
        if base != cur:
            manual.append((st + "(diverged)", path))
            continue
    shutil.copy2(os.path.join(src, path), os.path.join(dst, path))
    print("copied", path)
# known findings
a = json.load(open(os.path.join(dst, "known_findings.json")))
b = json.load(open(os.path.join(src, "known_findings.json")))
ids = {e["id"] for e in a["findings"]}
for e in b["findings"]:
    if e["id"] not in ids:
        a["findings"].append(e); print("known finding added:", e["id"])
for f in b.get("fixed", []):
    if f not in a["fixed"]:
        a["fixed"].append(f)
json.dump(a, open(os.path.join(dst, "known_findings.json"), "w"), indent=1)
print("MANUAL:", manual)
for st, p in manual:
    if p == "known_findings.json":
        continue
    print("----", p)
    print(subprocess.run(["git", "-C", src, "diff", "HEAD", "--", p], capture_output=True, text=True).stdout[:3000])
