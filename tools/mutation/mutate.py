#!/usr/bin/env python3
"""Systematic mutation of /repo's source to measure how much the checks see (a complement to the hand-seeded changes of seeded/).

    mutate.py list   [--per-file N] [--seed S]          -> prints the sampled mutants as JSON lines
    mutate.py apply  <json-line> <worktree>             -> writes the mutated file into the worktree

A mutant is (file, function, node index within the file's AST walk order, operator).  Operators: swap a comparison
operator, swap and/or, negate an `if`/`while` test, drop `not`, bump a small integer constant, replace a statement by
`pass` (expression statements, assignments, augmented assignments), `return X` -> `return None`, `break` <-> `continue`.
Logging / docstrings / argparse help text / __repr__ are not mutated (behaviourally irrelevant to every property)."""
import ast, json, os, random, sys

REPO = os.environ.get("BANDIT_REPO", "/repo")

# which checks look at which file (anchors of properties.jsonl + the modules each harness drives)
FILE_CHECKS = {
    "bandit/core/blacklisting.py": ["C01", "C05", "C18"],
    "bandit/blacklists/calls.py": ["C18", "C01"],
    "bandit/blacklists/imports.py": ["C18", "C01"],
    "bandit/blacklists/utils.py": ["C18", "C01"],
    "bandit/core/constants.py": ["C03", "C12", "C11"],
    "bandit/core/node_visitor.py": ["C01", "C04", "C10", "C02"],
    "bandit/core/tester.py": ["C02", "C05", "C12", "C06"],
    "bandit/core/manager.py": ["C02", "C03", "C04", "C07", "C11", "C12"],
    "bandit/core/utils.py": ["C01", "C02", "C10", "C17", "C14"],
    "bandit/core/context.py": ["C06", "C14", "C15", "C17"],
    "bandit/core/issue.py": ["C03", "C07", "C09", "C10", "C19"],
    "bandit/core/metrics.py": ["C12"],
    "bandit/core/test_set.py": ["C05", "C13", "C18"],
    "bandit/core/config.py": ["C13", "C03"],
    "bandit/core/extension_loader.py": ["C18", "C02", "C05", "C13", "C03"],
    "bandit/core/docs_utils.py": ["C18"],
    "bandit/cli/main.py": ["C03", "C13", "C11"],
    "bandit/cli/baseline.py": ["C20"],
    "bandit/formatters/json.py": ["C09", "C07"],
    "bandit/formatters/yaml.py": ["C09"],
    "bandit/formatters/csv.py": ["C09"],
    "bandit/formatters/xml.py": ["C09"],
    "bandit/formatters/sarif.py": ["C09"],
    "bandit/formatters/html.py": ["C09"],
    "bandit/formatters/custom.py": ["C09", "C03"],
    "bandit/formatters/text.py": ["C07"],
    "bandit/plugins/injection_shell.py": ["C14"],
    "bandit/plugins/injection_wildcard.py": ["C14"],
    "bandit/plugins/hashlib_insecure_functions.py": ["C15"],
    "bandit/plugins/weak_cryptographic_key.py": ["C15"],
    "bandit/plugins/insecure_ssl_tls.py": ["C15"],
    "bandit/plugins/crypto_request_no_cert_validation.py": ["C15"],
    "bandit/plugins/request_without_timeout.py": ["C15"],
    "bandit/plugins/ssh_no_host_key_verification.py": ["C15"],
    "bandit/plugins/snmp_security_check.py": ["C15"],
    "bandit/plugins/general_hardcoded_password.py": ["C16"],
    "bandit/plugins/general_hardcoded_tmp.py": ["C16"],
    "bandit/plugins/general_bind_all_interfaces.py": ["C16"],
    "bandit/plugins/general_bad_file_permissions.py": ["C16"],
    "bandit/plugins/injection_sql.py": ["C17"],
    "bandit/plugins/django_sql_injection.py": ["C17"],
    "bandit/plugins/django_xss.py": ["C17", "C06"],
    "bandit/plugins/jinja2_templates.py": ["C17"],
    "bandit/plugins/mako_templates.py": ["C17"],
    "bandit/plugins/markupsafe_markup_xss.py": ["C17"],
    "bandit/plugins/yaml_load.py": ["C17"],
    "bandit/plugins/pytorch_load.py": ["C17"],
    "bandit/plugins/tarfile_unsafe_members.py": ["C17"],
    "bandit/plugins/app_debug.py": ["C17"],
    "bandit/plugins/logging_config_insecure_listen.py": ["C17"],
    "bandit/plugins/injection_paramiko.py": ["C17"],
    "bandit/plugins/exec.py": ["C17"],
    "bandit/plugins/asserts.py": ["C17"],
    "bandit/plugins/try_except_pass.py": ["C17"],
    "bandit/plugins/try_except_continue.py": ["C17"],
    "bandit/plugins/trojansource.py": ["C19", "C10"],
}

CMP_SWAP = {ast.Eq: ast.NotEq, ast.NotEq: ast.Eq, ast.Lt: ast.LtE, ast.LtE: ast.Lt, ast.Gt: ast.GtE, ast.GtE: ast.Gt,
            ast.In: ast.NotIn, ast.NotIn: ast.In, ast.Is: ast.IsNot, ast.IsNot: ast.Is}


RANK_SWAP = {"HIGH": "MEDIUM", "MEDIUM": "LOW", "LOW": "MEDIUM"}


def is_noise(stmt):
    """statements no property can observe: logging, warnings, docstrings, help text"""
    src = ast.unparse(stmt)
    head = src.lstrip()
    return head.startswith(("LOG.", "logger.", "logging.", "warnings.", "print(")) or (isinstance(stmt, ast.Expr) and isinstance(stmt.value, ast.Constant))


def candidates(tree):
    """yield (index, operator, description); index = position in ast.walk order"""
    skip = set()
    for fn in ast.walk(tree):
        if isinstance(fn, (ast.FunctionDef, ast.AsyncFunctionDef)) and fn.name in ("__repr__", "__str__", "gen_config", "init_logger", "_log_info", "_init_logger"):
            skip.update(id(n) for n in ast.walk(fn))
        if isinstance(fn, ast.stmt) and is_noise(fn):
            skip.update(id(n) for n in ast.walk(fn))
    # string constants that take part in a comparison / membership test / startswith-endswith call
    cmp_strings = set()
    for c in ast.walk(tree):
        if isinstance(c, ast.Compare):
            for e in [c.left] + list(c.comparators):
                for x in ast.walk(e):
                    if isinstance(x, ast.Constant) and isinstance(x.value, str):
                        cmp_strings.add(id(x))
        if isinstance(c, (ast.List, ast.Tuple, ast.Set, ast.Dict)):
            for x in ast.iter_child_nodes(c):
                if isinstance(x, ast.Constant) and isinstance(x.value, str):
                    cmp_strings.add(id(x))
        if isinstance(c, ast.Call) and isinstance(c.func, ast.Attribute) and c.func.attr in ("startswith", "endswith", "get", "check_call_arg_value", "get_call_arg_value", "is_module_imported_like", "is_module_imported_exact"):
            for a in c.args:
                for x in ast.walk(a):
                    if isinstance(x, ast.Constant) and isinstance(x.value, str):
                        cmp_strings.add(id(x))
    for i, n in enumerate(ast.walk(tree)):
        if id(n) in skip:
            continue
        if isinstance(n, ast.Compare) and len(n.ops) == 1 and type(n.ops[0]) in CMP_SWAP:
            yield i, "cmp", ast.unparse(n)
        elif isinstance(n, ast.BoolOp):
            yield i, "boolop", ast.unparse(n)
        elif isinstance(n, (ast.If, ast.While)) and not (isinstance(n.test, ast.Constant)):
            yield i, "negtest", ast.unparse(n.test)
        elif isinstance(n, ast.UnaryOp) and isinstance(n.op, ast.Not):
            yield i, "dropnot", ast.unparse(n)
        elif isinstance(n, ast.Constant) and type(n.value) is int and 0 <= n.value <= 16:
            yield i, "int+1", repr(n.value)
        elif isinstance(n, (ast.Assign, ast.AugAssign)) or (isinstance(n, ast.Expr) and isinstance(n.value, ast.Call)):
            yield i, "delstmt", ast.unparse(n)[:80]
        elif isinstance(n, ast.Return) and n.value is not None and not (isinstance(n.value, ast.Constant) and n.value.value is None):
            yield i, "retnone", ast.unparse(n)[:80]
        elif isinstance(n, (ast.Break, ast.Continue)):
            yield i, "brkcont", type(n).__name__
        # data mutations: the rank a check reports, an element of a literal table, a string a decision compares with
        elif isinstance(n, ast.Attribute) and n.attr in RANK_SWAP and isinstance(n.value, ast.Name) and n.value.id in ("bandit", "b_const", "constants"):
            yield i, "rankswap", ast.unparse(n)
        elif isinstance(n, (ast.List, ast.Tuple, ast.Set)) and len(n.elts) >= 2 and all(isinstance(e, ast.Constant) for e in n.elts) and isinstance(getattr(n, "ctx", ast.Load()), ast.Load):
            yield i, "dropelem", ast.unparse(n)[:80]
        elif isinstance(n, ast.Constant) and isinstance(n.value, str) and 1 <= len(n.value) <= 40 and "\n" not in n.value and id(n) in cmp_strings:
            yield i, "strmut", repr(n.value)


def mutate_tree(tree, index, op):
    target = None
    for i, n in enumerate(ast.walk(tree)):
        if i == index:
            target = n
            break
    assert target is not None
    parent_of = {}
    for p in ast.walk(tree):
        for f, v in ast.iter_fields(p):
            if isinstance(v, list):
                for k, c in enumerate(v):
                    if isinstance(c, ast.AST):
                        parent_of[id(c)] = (p, f, k)
            elif isinstance(v, ast.AST):
                parent_of[id(v)] = (p, f, None)

    def replace(new):
        p, f, k = parent_of[id(target)]
        if k is None:
            setattr(p, f, new)
        else:
            getattr(p, f)[k] = new
    if op == "cmp":
        target.ops = [CMP_SWAP[type(target.ops[0])]()]
    elif op == "boolop":
        target.op = ast.Or() if isinstance(target.op, ast.And) else ast.And()
    elif op == "negtest":
        target.test = ast.UnaryOp(op=ast.Not(), operand=target.test)
    elif op == "dropnot":
        replace(target.operand)
    elif op == "int+1":
        target.value = target.value + 1
    elif op == "delstmt":
        replace(ast.Pass())
    elif op == "retnone":
        target.value = ast.Constant(value=None)
    elif op == "brkcont":
        replace(ast.Continue() if isinstance(target, ast.Break) else ast.Break())
    elif op == "rankswap":
        target.attr = RANK_SWAP[target.attr]
    elif op == "dropelem":
        target.elts = target.elts[:-1] if index % 2 else target.elts[1:]
    elif op == "strmut":
        target.value = target.value + "x"
    ast.fix_missing_locations(tree)
    return tree


def main():
    cmd = sys.argv[1]
    if cmd == "list":
        per = int(sys.argv[sys.argv.index("--per-file") + 1]) if "--per-file" in sys.argv else 6
        seed = int(sys.argv[sys.argv.index("--seed") + 1]) if "--seed" in sys.argv else 0
        rng = random.Random(seed)
        for rel, checks in sorted(FILE_CHECKS.items()):
            path = os.path.join(REPO, rel)
            if not os.path.exists(path):
                continue
            tree = ast.parse(open(path).read())
            cands = list(candidates(tree))
            if "--ops" in sys.argv:
                want = set(sys.argv[sys.argv.index("--ops") + 1].split(","))
                cands = [c for c in cands if c[1] in want]
            rng.shuffle(cands)
            for idx, op, desc in cands[:per]:
                print(json.dumps({"file": rel, "index": idx, "op": op, "desc": desc, "checks": checks}))
    elif cmd == "apply":
        m = json.load(open(sys.argv[2][1:])) if sys.argv[2].startswith("@") else json.loads(sys.argv[2])
        wt = sys.argv[3]
        path = os.path.join(wt, m["file"])
        tree = ast.parse(open(path).read())
        new = mutate_tree(tree, m["index"], m["op"])
        with open(path, "w") as f:
            f.write(ast.unparse(new) + "\n")


if __name__ == "__main__":
    main()
