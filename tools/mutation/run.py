#!/usr/bin/env python3
"""Run the sampled mutants of mutate.py against the unit-test suite and the mapped quick checks, in K parallel workers.

Each worker owns a scratch git worktree of /repo and a private copy of /verif (translate + lake build write there),
both under --root (default /tmp/mt) and removed at the end.  Results: one JSON line per mutant in --out with
status in {suite-kills, caught, survived, infra-error} and, for caught, the check that reported it.

    tools/mutation/run.py --workers 6 --per-file 6 --seed 0 --out tools/mutation/results-seed0.jsonl"""
import argparse, json, os, queue, shutil, subprocess, sys, threading, time

HERE = os.path.dirname(os.path.abspath(__file__))
VERIF = os.path.dirname(os.path.dirname(HERE))
PY = "/venv/bin/python"


def sh(cmd, cwd=None, env=None, timeout=1800):
    try:
        p = subprocess.run(cmd, shell=True, cwd=cwd, env=env, capture_output=True, text=True, timeout=timeout)
        return p.returncode, p.stdout + p.stderr
    except subprocess.TimeoutExpired:
        return 124, "timeout"


def suite(wt):
    rc, out = sh(f"{PY} -m pytest -q -p no:cacheprovider tests 2>&1 | tail -1", cwd=wt, timeout=600)
    return out.strip().split(" in ")[0]


def worker(w, root, q, out_f, lock, base_summary):
    wt = os.path.join(root, f"w{w}", "repo")
    vf = os.path.join(root, f"w{w}", "verif")
    while True:
        try:
            m = q.get_nowait()
        except queue.Empty:
            return
        t0 = time.time()
        sh("git checkout -q -- . && git clean -fdq", cwd=wt)
        mf = os.path.join(root, f"w{w}", "mutant.json")
        with open(mf, "w") as f:
            json.dump(m, f)
        rc, o = sh(f"{PY} {HERE}/mutate.py apply @{mf} {wt}")
        rec = dict(m)
        if rc != 0:
            rec.update(status="infra-error", detail=o[-300:])
        else:
            s = suite(wt)
            if s != base_summary:
                rec.update(status="suite-kills", suite=s)
            else:
                rec["status"] = "survived"
                rec["ran"] = []
                for c in m["checks"]:
                    rc, o = sh(f"BANDIT_REPO={wt} ./check {c} --tier quick", cwd=vf, timeout=1500)
                    rec["ran"].append([c, rc])
                    if rc == 1:
                        v = [l for l in o.splitlines() if l.startswith("VIOLATION")]
                        rec.update(status="caught", by=c, how=("no-failing-input-found" if v and v[0].endswith("no-failing-input-found") else "concrete replay"))
                        break
                    if rc not in (0, 1):
                        rec.update(status="infra-error", detail=o[-400:], by=c)
                        break
        rec["seconds"] = round(time.time() - t0, 1)
        with lock:
            out_f.write(json.dumps(rec) + "\n")
            out_f.flush()
            print(f"[w{w}] {rec['file']}:{rec['op']}@{rec['index']} -> {rec['status']} {rec.get('by', '')} ({rec['seconds']}s)", flush=True)


def main():
    ap = argparse.ArgumentParser()
    ap.add_argument("--workers", type=int, default=6)
    ap.add_argument("--per-file", type=int, default=6)
    ap.add_argument("--seed", type=int, default=0)
    ap.add_argument("--root", default="/tmp/mt")
    ap.add_argument("--out", default=os.path.join(HERE, "results.jsonl"))
    ap.add_argument("--only", default=None, help="substring of file names to restrict to")
    ap.add_argument("--ops", default=None, help="comma-separated operators to restrict to")
    a = ap.parse_args()
    rc, listing = sh(f"{PY} {HERE}/mutate.py list --per-file {a.per_file} --seed {a.seed}" + (f" --ops {a.ops}" if a.ops else ""))
    muts = [json.loads(l) for l in listing.splitlines() if l.startswith("{")]
    if a.only:
        muts = [m for m in muts if a.only in m["file"]]
    print(len(muts), "mutants")
    shutil.rmtree(a.root, ignore_errors=True)
    os.makedirs(a.root)
    head = subprocess.check_output(["git", "-C", "/repo", "rev-parse", "HEAD"], text=True).strip()
    for w in range(a.workers):
        d = os.path.join(a.root, f"w{w}")
        os.makedirs(d)
        sh(f"git -C /repo worktree add --detach {d}/repo {head}")
        sh(f"rsync -a --exclude .git --exclude replays {VERIF}/ {d}/verif/")
    base = suite(os.path.join(a.root, "w0", "repo"))
    # identity transformation (parse + unparse of every target file) must leave the suite summary unchanged
    print("baseline suite:", base)
    q = queue.Queue()
    for m in muts:
        q.put(m)
    lock = threading.Lock()
    with open(a.out, "w") as out_f:
        ts = [threading.Thread(target=worker, args=(w, a.root, q, out_f, lock, base)) for w in range(a.workers)]
        for t in ts:
            t.start()
        for t in ts:
            t.join()
    for w in range(a.workers):
        sh(f"git -C /repo worktree remove --force {a.root}/w{w}/repo")
    shutil.rmtree(a.root, ignore_errors=True)
    recs = [json.loads(l) for l in open(a.out)]
    from collections import Counter
    print(Counter(r["status"] for r in recs))


if __name__ == "__main__":
    main()
