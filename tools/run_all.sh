#!/bin/sh
# Run every claimed check's quick tier on /repo as it is and leave fresh evidence files behind.
cd "$(dirname "$0")/.."
rc=0
for p in $(python3 -c "import json;print(' '.join(c['property_id'] for c in json.load(open('MANIFEST.json'))['checks']))"); do
  ./check "$p" --tier "${1:-quick}" 2>&1 | tail -2 || rc=1
done
exit $rc
