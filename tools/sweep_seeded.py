#!/usr/bin/env python3
"""Run the registered quick check of every committed seeded change (seeded/<ID>-m<k>/patch.diff) against a scratch worktree with the
change applied, in K parallel workers (each with its own worktree of /repo and its own private copy of /verif, both under --root and
removed at the end).  Prints one line per change and a summary; exit 1 if any change is not reported (check exit status != 1).

    tools/sweep_seeded.py --workers 10 [C01 C02 ...]"""
import argparse, glob, os, queue, shutil, subprocess, sys, threading

VERIF = os.path.dirname(os.path.dirname(os.path.abspath(__file__)))


def sh(cmd, cwd=None, env=None, timeout=None):
    p = subprocess.run(cmd, shell=True, cwd=cwd, env=env, capture_output=True, text=True, timeout=timeout)
    return p.returncode, p.stdout + p.stderr


def worker(w, a, q, lock, results):
    d = os.path.join(a.root, f"w{w}")
    wt = f"{d}/repo"
    env = dict(os.environ, BANDIT_REPO=wt)
    while True:
        try:
            name = q.get_nowait()
        except queue.Empty:
            return
        pid = name.split("-")[0]
        patch = f"{VERIF}/seeded/{name}/patch.diff"
        sh(f"git -C {wt} reset -q --hard HEAD")
        rc0, o0 = sh(f"git -C {wt} apply {patch}")
        if rc0 != 0:
            line, rc = f"{name}: patch does not apply: {o0.strip()[:120]}", None
        else:
            try:
                rc, o = sh(f"./check {pid} --tier quick", cwd=f"{d}/verif", env=env, timeout=1500)
            except subprocess.TimeoutExpired:
                rc, o = 2, "timeout"
            tail = [l for l in o.strip().splitlines() if "tier=" in l][-1:] or [o.strip()[-160:]]
            line = f"{name}: exit={rc} {tail[0][:150]}"
        sh(f"git -C {wt} reset -q --hard HEAD")
        with lock:
            results[name] = rc
            print(line, flush=True)


def main():
    ap = argparse.ArgumentParser()
    ap.add_argument("--workers", type=int, default=8)
    ap.add_argument("--root", default="/tmp/sw")
    ap.add_argument("props", nargs="*")
    a = ap.parse_args()
    names = sorted(os.path.basename(os.path.dirname(p)) for p in glob.glob(f"{VERIF}/seeded/*/patch.diff"))
    if a.props:
        names = [n for n in names if n.split("-")[0] in a.props]
    shutil.rmtree(a.root, ignore_errors=True)
    os.makedirs(a.root)
    head = subprocess.check_output(["git", "-C", "/repo", "rev-parse", "HEAD"], text=True).strip()
    nw = min(a.workers, len(names))
    for w in range(nw):
        d = os.path.join(a.root, f"w{w}")
        os.makedirs(d)
        sh(f"git -C /repo worktree add --detach {d}/repo {head}")
        sh(f"rsync -a --exclude .git --exclude replays {VERIF}/ {d}/verif/")
    q = queue.Queue()
    # longest checks first
    for n in sorted(names, key=lambda n: n.split("-")[0] not in ("C06", "C04", "C08", "C17")):
        q.put(n)
    lock, results = threading.Lock(), {}
    ts = [threading.Thread(target=worker, args=(w, a, q, lock, results)) for w in range(nw)]
    for t in ts:
        t.start()
    for t in ts:
        t.join()
    for w in range(nw):
        sh(f"git -C /repo worktree remove --force {a.root}/w{w}/repo")
    shutil.rmtree(a.root, ignore_errors=True)
    sh("git -C /repo worktree prune")
    bad = sorted(n for n, rc in results.items() if rc != 1)
    print(f"SUMMARY: {len(results)} seeded changes, {len(results) - len(bad)} reported (exit 1), not reported: {bad}")
    sys.exit(1 if bad else 0)


if __name__ == "__main__":
    main()
