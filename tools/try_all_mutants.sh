#!/bin/sh
# runs every /tmp/seed/<ID>/mutantN.diff (or seeded/<id>/patch.diff) against check <ID>
cd "$(dirname "$0")/.."
for P in "$@"; do
  for D in /tmp/seed/$P/mutant*.diff; do
    [ -f "$D" ] || continue
    OUT=$(tools/try_mutant.sh "$D" "$P" 2>&1 | grep -v KNOWN)
    V=$(echo "$OUT" | grep -c VIOLATION)
    L=$(echo "$OUT" | grep "tier=" | tail -1)
    echo "$P $(basename $D): violations_lines=$V :: $L"
  done
done
