#!/bin/sh
# usage: tools/try_mutant.sh <patch.diff> <Cxx> [more Cxx...]   — applies the patch to a scratch worktree of /repo, runs the checks against it
set -e
PATCH="$1"; shift
WT=/tmp/mywt
[ -d "$WT" ] || git -C /repo worktree add -q --detach "$WT" HEAD      # scratch worktree (outside /repo and /verif), created on first use
git -C "$WT" checkout -q --detach "$(git -C /repo rev-parse HEAD)" 2>/dev/null
git -C "$WT" reset -q --hard HEAD
git -C "$WT" apply "$PATCH"
cd "$(dirname "$0")/.."
for P in "$@"; do
  BANDIT_REPO="$WT" ./check "$P" --tier "${TIER:-quick}" 2>&1 | grep -E "VIOLATION|tier=|KNOWN" | cut -c1-220 | tail -4
done
git -C "$WT" reset -q --hard HEAD
/venv/bin/python harness/translate.py >/dev/null
